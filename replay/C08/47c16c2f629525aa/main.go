package main

type T struct {
	a int
	m map[string]int
	s []int
	p *T
}

func (t T) val() int   { return t.a }
func (t *T) ptr() int  { return t.a }
func (t *T) nop() int  { return 7 }

type I interface{ M() int }
type J interface{ N() }
type impl struct{ x int }

func (i impl) M() int { return i.x }

type myErr struct{ c int }

func (e myErr) Error() string { return "myErr" + itoa(e.c) }

var trace string

// lg logs the evaluation of an operand and returns it.
func lg(n int, v int) int { trace += "<" + itoa(n) + ">"; return v }
func lgs(n int, v []int) []int { trace += "<" + itoa(n) + ">"; return v }
func lgm(n int, v map[string]int) map[string]int { trace += "<" + itoa(n) + ">"; return v }

var sink int
var sinkS string
var sinkB bool
var sinkAny interface{}

func use(v int) { sink += v }

// index-write sl[int(-1)]
func p0() (r string) {
	trace = ""
	defer func() {
		r += trace + "|" + classify(recover())
	}()
	r = "pre;"
	sl := []int{10, 20, 30}; arr := [3]int{10, 20, 30}; str := "abc"; parr := &arr; var nilsl []int; sub := sl[:2]; _, _, _, _, _, _ = sl, arr, str, parr, nilsl, sub; i := int(-1)
	sl[i] = 5
	r += "post;"
	return
}

// index-read arr[int8(-1)]
func p1() (r string) {
	trace = ""
	defer func() {
		r += trace + "|" + classify(recover())
	}()
	r = "pre;"
	sl := []int{10, 20, 30}; arr := [3]int{10, 20, 30}; str := "abc"; parr := &arr; var nilsl []int; sub := sl[:2]; _, _, _, _, _, _ = sl, arr, str, parr, nilsl, sub; i := int8(-1)
	use(int(arr[i]))
	r += "post;"
	return
}

// index-read str[int64(1)]
func p2() (r string) {
	trace = ""
	defer func() {
		r += trace + "|" + classify(recover())
	}()
	r = "pre;"
	sl := []int{10, 20, 30}; arr := [3]int{10, 20, 30}; str := "abc"; parr := &arr; var nilsl []int; sub := sl[:2]; _, _, _, _, _, _ = sl, arr, str, parr, nilsl, sub; i := int64(1)
	use(int(str[i]))
	r += "post;"
	return
}

// index-read parr[uint(2)]
func p3() (r string) {
	trace = ""
	defer func() {
		r += trace + "|" + classify(recover())
	}()
	r = "pre;"
	sl := []int{10, 20, 30}; arr := [3]int{10, 20, 30}; str := "abc"; parr := &arr; var nilsl []int; sub := sl[:2]; _, _, _, _, _, _ = sl, arr, str, parr, nilsl, sub; i := uint(2)
	use(int(parr[i]))
	r += "post;"
	return
}

// index-write nilsl[uint64(4294967296)]
func p4() (r string) {
	trace = ""
	defer func() {
		r += trace + "|" + classify(recover())
	}()
	r = "pre;"
	sl := []int{10, 20, 30}; arr := [3]int{10, 20, 30}; str := "abc"; parr := &arr; var nilsl []int; sub := sl[:2]; _, _, _, _, _, _ = sl, arr, str, parr, nilsl, sub; i := uint64(4294967296)
	nilsl[i] = 5
	r += "post;"
	return
}

// index-write sub[uint8(2)]
func p5() (r string) {
	trace = ""
	defer func() {
		r += trace + "|" + classify(recover())
	}()
	r = "pre;"
	sl := []int{10, 20, 30}; arr := [3]int{10, 20, 30}; str := "abc"; parr := &arr; var nilsl []int; sub := sl[:2]; _, _, _, _, _, _ = sl, arr, str, parr, nilsl, sub; i := uint8(2)
	sub[i] = 5
	r += "post;"
	return
}

// index-write sl[int(5)]
func p6() (r string) {
	trace = ""
	defer func() {
		r += trace + "|" + classify(recover())
	}()
	r = "pre;"
	sl := []int{10, 20, 30}; arr := [3]int{10, 20, 30}; str := "abc"; parr := &arr; var nilsl []int; sub := sl[:2]; _, _, _, _, _, _ = sl, arr, str, parr, nilsl, sub; i := int(5)
	sl[i] = 5
	r += "post;"
	return
}

// index-read arr[int8(3)]
func p7() (r string) {
	trace = ""
	defer func() {
		r += trace + "|" + classify(recover())
	}()
	r = "pre;"
	sl := []int{10, 20, 30}; arr := [3]int{10, 20, 30}; str := "abc"; parr := &arr; var nilsl []int; sub := sl[:2]; _, _, _, _, _, _ = sl, arr, str, parr, nilsl, sub; i := int8(3)
	use(int(arr[i]))
	r += "post;"
	return
}

// index-read str[int64(-2147483648)]
func p8() (r string) {
	trace = ""
	defer func() {
		r += trace + "|" + classify(recover())
	}()
	r = "pre;"
	sl := []int{10, 20, 30}; arr := [3]int{10, 20, 30}; str := "abc"; parr := &arr; var nilsl []int; sub := sl[:2]; _, _, _, _, _, _ = sl, arr, str, parr, nilsl, sub; i := int64(-2147483648)
	use(int(str[i]))
	r += "post;"
	return
}

// index-write parr[uint(200)]
func p9() (r string) {
	trace = ""
	defer func() {
		r += trace + "|" + classify(recover())
	}()
	r = "pre;"
	sl := []int{10, 20, 30}; arr := [3]int{10, 20, 30}; str := "abc"; parr := &arr; var nilsl []int; sub := sl[:2]; _, _, _, _, _, _ = sl, arr, str, parr, nilsl, sub; i := uint(200)
	parr[i] = 5
	r += "post;"
	return
}

// index-read nilsl[uint64(4294967297)]
func p10() (r string) {
	trace = ""
	defer func() {
		r += trace + "|" + classify(recover())
	}()
	r = "pre;"
	sl := []int{10, 20, 30}; arr := [3]int{10, 20, 30}; str := "abc"; parr := &arr; var nilsl []int; sub := sl[:2]; _, _, _, _, _, _ = sl, arr, str, parr, nilsl, sub; i := uint64(4294967297)
	use(int(nilsl[i]))
	r += "post;"
	return
}

// index-read sub[uint8(4)]
func p11() (r string) {
	trace = ""
	defer func() {
		r += trace + "|" + classify(recover())
	}()
	r = "pre;"
	sl := []int{10, 20, 30}; arr := [3]int{10, 20, 30}; str := "abc"; parr := &arr; var nilsl []int; sub := sl[:2]; _, _, _, _, _, _ = sl, arr, str, parr, nilsl, sub; i := uint8(4)
	use(int(sub[i]))
	r += "post;"
	return
}

// index-read sl[int(2)]
func p12() (r string) {
	trace = ""
	defer func() {
		r += trace + "|" + classify(recover())
	}()
	r = "pre;"
	sl := []int{10, 20, 30}; arr := [3]int{10, 20, 30}; str := "abc"; parr := &arr; var nilsl []int; sub := sl[:2]; _, _, _, _, _, _ = sl, arr, str, parr, nilsl, sub; i := int(2)
	use(int(sl[i]))
	r += "post;"
	return
}

// index-write arr[int8(100)]
func p13() (r string) {
	trace = ""
	defer func() {
		r += trace + "|" + classify(recover())
	}()
	r = "pre;"
	sl := []int{10, 20, 30}; arr := [3]int{10, 20, 30}; str := "abc"; parr := &arr; var nilsl []int; sub := sl[:2]; _, _, _, _, _, _ = sl, arr, str, parr, nilsl, sub; i := int8(100)
	arr[i] = 5
	r += "post;"
	return
}

// index-read str[int64(4)]
func p14() (r string) {
	trace = ""
	defer func() {
		r += trace + "|" + classify(recover())
	}()
	r = "pre;"
	sl := []int{10, 20, 30}; arr := [3]int{10, 20, 30}; str := "abc"; parr := &arr; var nilsl []int; sub := sl[:2]; _, _, _, _, _, _ = sl, arr, str, parr, nilsl, sub; i := int64(4)
	use(int(str[i]))
	r += "post;"
	return
}

// index-read parr[uint(5)]
func p15() (r string) {
	trace = ""
	defer func() {
		r += trace + "|" + classify(recover())
	}()
	r = "pre;"
	sl := []int{10, 20, 30}; arr := [3]int{10, 20, 30}; str := "abc"; parr := &arr; var nilsl []int; sub := sl[:2]; _, _, _, _, _, _ = sl, arr, str, parr, nilsl, sub; i := uint(5)
	use(int(parr[i]))
	r += "post;"
	return
}

// index-read nilsl[uint64(2147483647)]
func p16() (r string) {
	trace = ""
	defer func() {
		r += trace + "|" + classify(recover())
	}()
	r = "pre;"
	sl := []int{10, 20, 30}; arr := [3]int{10, 20, 30}; str := "abc"; parr := &arr; var nilsl []int; sub := sl[:2]; _, _, _, _, _, _ = sl, arr, str, parr, nilsl, sub; i := uint64(2147483647)
	use(int(nilsl[i]))
	r += "post;"
	return
}

// index-write sub[uint8(0)]
func p17() (r string) {
	trace = ""
	defer func() {
		r += trace + "|" + classify(recover())
	}()
	r = "pre;"
	sl := []int{10, 20, 30}; arr := [3]int{10, 20, 30}; str := "abc"; parr := &arr; var nilsl []int; sub := sl[:2]; _, _, _, _, _, _ = sl, arr, str, parr, nilsl, sub; i := uint8(0)
	sub[i] = 5
	r += "post;"
	return
}

// index-write sl[int(-1)]
func p18() (r string) {
	trace = ""
	defer func() {
		r += trace + "|" + classify(recover())
	}()
	r = "pre;"
	sl := []int{10, 20, 30}; arr := [3]int{10, 20, 30}; str := "abc"; parr := &arr; var nilsl []int; sub := sl[:2]; _, _, _, _, _, _ = sl, arr, str, parr, nilsl, sub; i := int(-1)
	sl[i] = 5
	r += "post;"
	return
}

// index-read arr[int8(-1)]
func p19() (r string) {
	trace = ""
	defer func() {
		r += trace + "|" + classify(recover())
	}()
	r = "pre;"
	sl := []int{10, 20, 30}; arr := [3]int{10, 20, 30}; str := "abc"; parr := &arr; var nilsl []int; sub := sl[:2]; _, _, _, _, _, _ = sl, arr, str, parr, nilsl, sub; i := int8(-1)
	use(int(arr[i]))
	r += "post;"
	return
}

// index-read sl[int(-1)]
func p20() (r string) {
	trace = ""
	defer func() {
		r += trace + "|" + classify(recover())
	}()
	r = "pre;"
	sl := []int{10, 20, 30}; arr := [3]int{10, 20, 30}; str := "abc"; parr := &arr; var nilsl []int; sub := sl[:2]; _, _, _, _, _, _ = sl, arr, str, parr, nilsl, sub; i := int(-1)
	use(int(sl[i]))
	r += "post;"
	return
}

// index-read arr[int8(0)]
func p21() (r string) {
	trace = ""
	defer func() {
		r += trace + "|" + classify(recover())
	}()
	r = "pre;"
	sl := []int{10, 20, 30}; arr := [3]int{10, 20, 30}; str := "abc"; parr := &arr; var nilsl []int; sub := sl[:2]; _, _, _, _, _, _ = sl, arr, str, parr, nilsl, sub; i := int8(0)
	use(int(arr[i]))
	r += "post;"
	return
}

// index-read str[int64(4294967296)]
func p22() (r string) {
	trace = ""
	defer func() {
		r += trace + "|" + classify(recover())
	}()
	r = "pre;"
	sl := []int{10, 20, 30}; arr := [3]int{10, 20, 30}; str := "abc"; parr := &arr; var nilsl []int; sub := sl[:2]; _, _, _, _, _, _ = sl, arr, str, parr, nilsl, sub; i := int64(4294967296)
	use(int(str[i]))
	r += "post;"
	return
}

// index-read parr[uint(2)]
func p23() (r string) {
	trace = ""
	defer func() {
		r += trace + "|" + classify(recover())
	}()
	r = "pre;"
	sl := []int{10, 20, 30}; arr := [3]int{10, 20, 30}; str := "abc"; parr := &arr; var nilsl []int; sub := sl[:2]; _, _, _, _, _, _ = sl, arr, str, parr, nilsl, sub; i := uint(2)
	use(int(parr[i]))
	r += "post;"
	return
}

// index-write nilsl[uint64(4294967297)]
func p24() (r string) {
	trace = ""
	defer func() {
		r += trace + "|" + classify(recover())
	}()
	r = "pre;"
	sl := []int{10, 20, 30}; arr := [3]int{10, 20, 30}; str := "abc"; parr := &arr; var nilsl []int; sub := sl[:2]; _, _, _, _, _, _ = sl, arr, str, parr, nilsl, sub; i := uint64(4294967297)
	nilsl[i] = 5
	r += "post;"
	return
}

// index-read sub[uint8(2)]
func p25() (r string) {
	trace = ""
	defer func() {
		r += trace + "|" + classify(recover())
	}()
	r = "pre;"
	sl := []int{10, 20, 30}; arr := [3]int{10, 20, 30}; str := "abc"; parr := &arr; var nilsl []int; sub := sl[:2]; _, _, _, _, _, _ = sl, arr, str, parr, nilsl, sub; i := uint8(2)
	use(int(sub[i]))
	r += "post;"
	return
}

// index-read sl[int(5)]
func p26() (r string) {
	trace = ""
	defer func() {
		r += trace + "|" + classify(recover())
	}()
	r = "pre;"
	sl := []int{10, 20, 30}; arr := [3]int{10, 20, 30}; str := "abc"; parr := &arr; var nilsl []int; sub := sl[:2]; _, _, _, _, _, _ = sl, arr, str, parr, nilsl, sub; i := int(5)
	use(int(sl[i]))
	r += "post;"
	return
}

// index-read arr[int8(3)]
func p27() (r string) {
	trace = ""
	defer func() {
		r += trace + "|" + classify(recover())
	}()
	r = "pre;"
	sl := []int{10, 20, 30}; arr := [3]int{10, 20, 30}; str := "abc"; parr := &arr; var nilsl []int; sub := sl[:2]; _, _, _, _, _, _ = sl, arr, str, parr, nilsl, sub; i := int8(3)
	use(int(arr[i]))
	r += "post;"
	return
}

// index-read str[int64(-2147483648)]
func p28() (r string) {
	trace = ""
	defer func() {
		r += trace + "|" + classify(recover())
	}()
	r = "pre;"
	sl := []int{10, 20, 30}; arr := [3]int{10, 20, 30}; str := "abc"; parr := &arr; var nilsl []int; sub := sl[:2]; _, _, _, _, _, _ = sl, arr, str, parr, nilsl, sub; i := int64(-2147483648)
	use(int(str[i]))
	r += "post;"
	return
}

// index-read parr[uint(200)]
func p29() (r string) {
	trace = ""
	defer func() {
		r += trace + "|" + classify(recover())
	}()
	r = "pre;"
	sl := []int{10, 20, 30}; arr := [3]int{10, 20, 30}; str := "abc"; parr := &arr; var nilsl []int; sub := sl[:2]; _, _, _, _, _, _ = sl, arr, str, parr, nilsl, sub; i := uint(200)
	use(int(parr[i]))
	r += "post;"
	return
}

// index-read nilsl[uint64(0)]
func p30() (r string) {
	trace = ""
	defer func() {
		r += trace + "|" + classify(recover())
	}()
	r = "pre;"
	sl := []int{10, 20, 30}; arr := [3]int{10, 20, 30}; str := "abc"; parr := &arr; var nilsl []int; sub := sl[:2]; _, _, _, _, _, _ = sl, arr, str, parr, nilsl, sub; i := uint64(0)
	use(int(nilsl[i]))
	r += "post;"
	return
}

// index-write sub[uint8(4)]
func p31() (r string) {
	trace = ""
	defer func() {
		r += trace + "|" + classify(recover())
	}()
	r = "pre;"
	sl := []int{10, 20, 30}; arr := [3]int{10, 20, 30}; str := "abc"; parr := &arr; var nilsl []int; sub := sl[:2]; _, _, _, _, _, _ = sl, arr, str, parr, nilsl, sub; i := uint8(4)
	sub[i] = 5
	r += "post;"
	return
}

// index-read sl[int(2)]
func p32() (r string) {
	trace = ""
	defer func() {
		r += trace + "|" + classify(recover())
	}()
	r = "pre;"
	sl := []int{10, 20, 30}; arr := [3]int{10, 20, 30}; str := "abc"; parr := &arr; var nilsl []int; sub := sl[:2]; _, _, _, _, _, _ = sl, arr, str, parr, nilsl, sub; i := int(2)
	use(int(sl[i]))
	r += "post;"
	return
}

// index-read arr[int8(100)]
func p33() (r string) {
	trace = ""
	defer func() {
		r += trace + "|" + classify(recover())
	}()
	r = "pre;"
	sl := []int{10, 20, 30}; arr := [3]int{10, 20, 30}; str := "abc"; parr := &arr; var nilsl []int; sub := sl[:2]; _, _, _, _, _, _ = sl, arr, str, parr, nilsl, sub; i := int8(100)
	use(int(arr[i]))
	r += "post;"
	return
}

// index-read str[int64(4)]
func p34() (r string) {
	trace = ""
	defer func() {
		r += trace + "|" + classify(recover())
	}()
	r = "pre;"
	sl := []int{10, 20, 30}; arr := [3]int{10, 20, 30}; str := "abc"; parr := &arr; var nilsl []int; sub := sl[:2]; _, _, _, _, _, _ = sl, arr, str, parr, nilsl, sub; i := int64(4)
	use(int(str[i]))
	r += "post;"
	return
}

// index-read parr[uint(5)]
func p35() (r string) {
	trace = ""
	defer func() {
		r += trace + "|" + classify(recover())
	}()
	r = "pre;"
	sl := []int{10, 20, 30}; arr := [3]int{10, 20, 30}; str := "abc"; parr := &arr; var nilsl []int; sub := sl[:2]; _, _, _, _, _, _ = sl, arr, str, parr, nilsl, sub; i := uint(5)
	use(int(parr[i]))
	r += "post;"
	return
}

// index-write nilsl[uint64(2147483647)]
func p36() (r string) {
	trace = ""
	defer func() {
		r += trace + "|" + classify(recover())
	}()
	r = "pre;"
	sl := []int{10, 20, 30}; arr := [3]int{10, 20, 30}; str := "abc"; parr := &arr; var nilsl []int; sub := sl[:2]; _, _, _, _, _, _ = sl, arr, str, parr, nilsl, sub; i := uint64(2147483647)
	nilsl[i] = 5
	r += "post;"
	return
}

// index-write sub[uint8(0)]
func p37() (r string) {
	trace = ""
	defer func() {
		r += trace + "|" + classify(recover())
	}()
	r = "pre;"
	sl := []int{10, 20, 30}; arr := [3]int{10, 20, 30}; str := "abc"; parr := &arr; var nilsl []int; sub := sl[:2]; _, _, _, _, _, _ = sl, arr, str, parr, nilsl, sub; i := uint8(0)
	sub[i] = 5
	r += "post;"
	return
}

// index-write sl[int(-1)]
func p38() (r string) {
	trace = ""
	defer func() {
		r += trace + "|" + classify(recover())
	}()
	r = "pre;"
	sl := []int{10, 20, 30}; arr := [3]int{10, 20, 30}; str := "abc"; parr := &arr; var nilsl []int; sub := sl[:2]; _, _, _, _, _, _ = sl, arr, str, parr, nilsl, sub; i := int(-1)
	sl[i] = 5
	r += "post;"
	return
}

// index-read arr[int8(-1)]
func p39() (r string) {
	trace = ""
	defer func() {
		r += trace + "|" + classify(recover())
	}()
	r = "pre;"
	sl := []int{10, 20, 30}; arr := [3]int{10, 20, 30}; str := "abc"; parr := &arr; var nilsl []int; sub := sl[:2]; _, _, _, _, _, _ = sl, arr, str, parr, nilsl, sub; i := int8(-1)
	use(int(arr[i]))
	r += "post;"
	return
}

// slice sl[-1:-1]
func p40() (r string) {
	trace = ""
	defer func() {
		r += trace + "|" + classify(recover())
	}()
	r = "pre;"
	sl := make([]int, 3, 5); arr := [3]int{1, 2, 3}; str := "abc"; parr := &arr; sub := sl[1:2]; _, _, _, _, _ = sl, arr, str, parr, sub; lo, hi, mx := -1, -1, 0; _, _, _ = lo, hi, mx
	use(len(sl[lo:hi]))
	r += "post;"
	return
}

// slice arr[:0]
func p41() (r string) {
	trace = ""
	defer func() {
		r += trace + "|" + classify(recover())
	}()
	r = "pre;"
	sl := make([]int, 3, 5); arr := [3]int{1, 2, 3}; str := "abc"; parr := &arr; sub := sl[1:2]; _, _, _, _, _ = sl, arr, str, parr, sub; lo, hi, mx := 0, 0, 2; _, _, _ = lo, hi, mx
	use(len(arr[:hi]))
	r += "post;"
	return
}

// slice str[:1]
func p42() (r string) {
	trace = ""
	defer func() {
		r += trace + "|" + classify(recover())
	}()
	r = "pre;"
	sl := make([]int, 3, 5); arr := [3]int{1, 2, 3}; str := "abc"; parr := &arr; sub := sl[1:2]; _, _, _, _, _ = sl, arr, str, parr, sub; lo, hi, mx := 1, 1, 3; _, _, _ = lo, hi, mx
	use(len(str[:hi]))
	r += "post;"
	return
}

// slice parr[2:]
func p43() (r string) {
	trace = ""
	defer func() {
		r += trace + "|" + classify(recover())
	}()
	r = "pre;"
	sl := make([]int, 3, 5); arr := [3]int{1, 2, 3}; str := "abc"; parr := &arr; sub := sl[1:2]; _, _, _, _, _ = sl, arr, str, parr, sub; lo, hi, mx := 2, 2, 5; _, _, _ = lo, hi, mx
	use(len(parr[lo:]))
	r += "post;"
	return
}

// slice sub[:3]
func p44() (r string) {
	trace = ""
	defer func() {
		r += trace + "|" + classify(recover())
	}()
	r = "pre;"
	sl := make([]int, 3, 5); arr := [3]int{1, 2, 3}; str := "abc"; parr := &arr; sub := sl[1:2]; _, _, _, _, _ = sl, arr, str, parr, sub; lo, hi, mx := 3, 3, 6; _, _, _ = lo, hi, mx
	use(len(sub[:hi]))
	r += "post;"
	return
}

// slice sl[4:4]
func p45() (r string) {
	trace = ""
	defer func() {
		r += trace + "|" + classify(recover())
	}()
	r = "pre;"
	sl := make([]int, 3, 5); arr := [3]int{1, 2, 3}; str := "abc"; parr := &arr; sub := sl[1:2]; _, _, _, _, _ = sl, arr, str, parr, sub; lo, hi, mx := 4, 4, 0; _, _, _ = lo, hi, mx
	use(len(sl[lo:hi]))
	r += "post;"
	return
}

// slice arr[:5]
func p46() (r string) {
	trace = ""
	defer func() {
		r += trace + "|" + classify(recover())
	}()
	r = "pre;"
	sl := make([]int, 3, 5); arr := [3]int{1, 2, 3}; str := "abc"; parr := &arr; sub := sl[1:2]; _, _, _, _, _ = sl, arr, str, parr, sub; lo, hi, mx := 5, 5, 2; _, _, _ = lo, hi, mx
	use(len(arr[:hi]))
	r += "post;"
	return
}

// slice str[-1:6]
func p47() (r string) {
	trace = ""
	defer func() {
		r += trace + "|" + classify(recover())
	}()
	r = "pre;"
	sl := make([]int, 3, 5); arr := [3]int{1, 2, 3}; str := "abc"; parr := &arr; sub := sl[1:2]; _, _, _, _, _ = sl, arr, str, parr, sub; lo, hi, mx := -1, 6, 3; _, _, _ = lo, hi, mx
	use(len(str[lo:hi]))
	r += "post;"
	return
}

// slice parr[:-1]
func p48() (r string) {
	trace = ""
	defer func() {
		r += trace + "|" + classify(recover())
	}()
	r = "pre;"
	sl := make([]int, 3, 5); arr := [3]int{1, 2, 3}; str := "abc"; parr := &arr; sub := sl[1:2]; _, _, _, _, _ = sl, arr, str, parr, sub; lo, hi, mx := 0, -1, 5; _, _, _ = lo, hi, mx
	use(len(parr[:hi]))
	r += "post;"
	return
}

// slice3 sub[1:0:mx]
func p49() (r string) {
	trace = ""
	defer func() {
		r += trace + "|" + classify(recover())
	}()
	r = "pre;"
	sl := make([]int, 3, 5); arr := [3]int{1, 2, 3}; str := "abc"; parr := &arr; sub := sl[1:2]; _, _, _, _, _ = sl, arr, str, parr, sub; lo, hi, mx := 1, 0, 6; _, _, _ = lo, hi, mx
	use(cap(sub[lo:hi:mx]))
	r += "post;"
	return
}

// slice3 sl[2:1:mx]
func p50() (r string) {
	trace = ""
	defer func() {
		r += trace + "|" + classify(recover())
	}()
	r = "pre;"
	sl := make([]int, 3, 5); arr := [3]int{1, 2, 3}; str := "abc"; parr := &arr; sub := sl[1:2]; _, _, _, _, _ = sl, arr, str, parr, sub; lo, hi, mx := 2, 1, 0; _, _, _ = lo, hi, mx
	use(cap(sl[lo:hi:mx]))
	r += "post;"
	return
}

// slice arr[3:2]
func p51() (r string) {
	trace = ""
	defer func() {
		r += trace + "|" + classify(recover())
	}()
	r = "pre;"
	sl := make([]int, 3, 5); arr := [3]int{1, 2, 3}; str := "abc"; parr := &arr; sub := sl[1:2]; _, _, _, _, _ = sl, arr, str, parr, sub; lo, hi, mx := 3, 2, 2; _, _, _ = lo, hi, mx
	use(len(arr[lo:hi]))
	r += "post;"
	return
}

// slice3 sl[4:3:mx]
func p52() (r string) {
	trace = ""
	defer func() {
		r += trace + "|" + classify(recover())
	}()
	r = "pre;"
	sl := make([]int, 3, 5); arr := [3]int{1, 2, 3}; str := "abc"; parr := &arr; sub := sl[1:2]; _, _, _, _, _ = sl, arr, str, parr, sub; lo, hi, mx := 4, 3, 3; _, _, _ = lo, hi, mx
	use(cap(sl[lo:hi:mx]))
	r += "post;"
	return
}

// slice parr[5:]
func p53() (r string) {
	trace = ""
	defer func() {
		r += trace + "|" + classify(recover())
	}()
	r = "pre;"
	sl := make([]int, 3, 5); arr := [3]int{1, 2, 3}; str := "abc"; parr := &arr; sub := sl[1:2]; _, _, _, _, _ = sl, arr, str, parr, sub; lo, hi, mx := 5, 4, 5; _, _, _ = lo, hi, mx
	use(len(parr[lo:]))
	r += "post;"
	return
}

// slice sub[-1:5]
func p54() (r string) {
	trace = ""
	defer func() {
		r += trace + "|" + classify(recover())
	}()
	r = "pre;"
	sl := make([]int, 3, 5); arr := [3]int{1, 2, 3}; str := "abc"; parr := &arr; sub := sl[1:2]; _, _, _, _, _ = sl, arr, str, parr, sub; lo, hi, mx := -1, 5, 6; _, _, _ = lo, hi, mx
	use(len(sub[lo:hi]))
	r += "post;"
	return
}

// slice sl[:6]
func p55() (r string) {
	trace = ""
	defer func() {
		r += trace + "|" + classify(recover())
	}()
	r = "pre;"
	sl := make([]int, 3, 5); arr := [3]int{1, 2, 3}; str := "abc"; parr := &arr; sub := sl[1:2]; _, _, _, _, _ = sl, arr, str, parr, sub; lo, hi, mx := 0, 6, 0; _, _, _ = lo, hi, mx
	use(len(sl[:hi]))
	r += "post;"
	return
}

// slice arr[:-1]
func p56() (r string) {
	trace = ""
	defer func() {
		r += trace + "|" + classify(recover())
	}()
	r = "pre;"
	sl := make([]int, 3, 5); arr := [3]int{1, 2, 3}; str := "abc"; parr := &arr; sub := sl[1:2]; _, _, _, _, _ = sl, arr, str, parr, sub; lo, hi, mx := 1, -1, 2; _, _, _ = lo, hi, mx
	use(len(arr[:hi]))
	r += "post;"
	return
}

// slice3 sl[2:0:mx]
func p57() (r string) {
	trace = ""
	defer func() {
		r += trace + "|" + classify(recover())
	}()
	r = "pre;"
	sl := make([]int, 3, 5); arr := [3]int{1, 2, 3}; str := "abc"; parr := &arr; sub := sl[1:2]; _, _, _, _, _ = sl, arr, str, parr, sub; lo, hi, mx := 2, 0, 3; _, _, _ = lo, hi, mx
	use(cap(sl[lo:hi:mx]))
	r += "post;"
	return
}

// slice3 parr[3:1:mx]
func p58() (r string) {
	trace = ""
	defer func() {
		r += trace + "|" + classify(recover())
	}()
	r = "pre;"
	sl := make([]int, 3, 5); arr := [3]int{1, 2, 3}; str := "abc"; parr := &arr; sub := sl[1:2]; _, _, _, _, _ = sl, arr, str, parr, sub; lo, hi, mx := 3, 1, 5; _, _, _ = lo, hi, mx
	use(cap(parr[lo:hi:mx]))
	r += "post;"
	return
}

// slice sub[:2]
func p59() (r string) {
	trace = ""
	defer func() {
		r += trace + "|" + classify(recover())
	}()
	r = "pre;"
	sl := make([]int, 3, 5); arr := [3]int{1, 2, 3}; str := "abc"; parr := &arr; sub := sl[1:2]; _, _, _, _, _ = sl, arr, str, parr, sub; lo, hi, mx := 4, 2, 6; _, _, _ = lo, hi, mx
	use(len(sub[:hi]))
	r += "post;"
	return
}

// slice sl[-1:-1]
func p60() (r string) {
	trace = ""
	defer func() {
		r += trace + "|" + classify(recover())
	}()
	r = "pre;"
	sl := make([]int, 3, 5); arr := [3]int{1, 2, 3}; str := "abc"; parr := &arr; sub := sl[1:2]; _, _, _, _, _ = sl, arr, str, parr, sub; lo, hi, mx := -1, -1, 0; _, _, _ = lo, hi, mx
	use(len(sl[lo:hi]))
	r += "post;"
	return
}

// slice arr[0:]
func p61() (r string) {
	trace = ""
	defer func() {
		r += trace + "|" + classify(recover())
	}()
	r = "pre;"
	sl := make([]int, 3, 5); arr := [3]int{1, 2, 3}; str := "abc"; parr := &arr; sub := sl[1:2]; _, _, _, _, _ = sl, arr, str, parr, sub; lo, hi, mx := 0, 0, 2; _, _, _ = lo, hi, mx
	use(len(arr[lo:]))
	r += "post;"
	return
}

// slice str[1:1]
func p62() (r string) {
	trace = ""
	defer func() {
		r += trace + "|" + classify(recover())
	}()
	r = "pre;"
	sl := make([]int, 3, 5); arr := [3]int{1, 2, 3}; str := "abc"; parr := &arr; sub := sl[1:2]; _, _, _, _, _ = sl, arr, str, parr, sub; lo, hi, mx := 1, 1, 3; _, _, _ = lo, hi, mx
	use(len(str[lo:hi]))
	r += "post;"
	return
}

// slice parr[2:]
func p63() (r string) {
	trace = ""
	defer func() {
		r += trace + "|" + classify(recover())
	}()
	r = "pre;"
	sl := make([]int, 3, 5); arr := [3]int{1, 2, 3}; str := "abc"; parr := &arr; sub := sl[1:2]; _, _, _, _, _ = sl, arr, str, parr, sub; lo, hi, mx := 2, 2, 5; _, _, _ = lo, hi, mx
	use(len(parr[lo:]))
	r += "post;"
	return
}

// slice3 sub[3:3:mx]
func p64() (r string) {
	trace = ""
	defer func() {
		r += trace + "|" + classify(recover())
	}()
	r = "pre;"
	sl := make([]int, 3, 5); arr := [3]int{1, 2, 3}; str := "abc"; parr := &arr; sub := sl[1:2]; _, _, _, _, _ = sl, arr, str, parr, sub; lo, hi, mx := 3, 3, 6; _, _, _ = lo, hi, mx
	use(cap(sub[lo:hi:mx]))
	r += "post;"
	return
}

// slice3 sl[4:4:mx]
func p65() (r string) {
	trace = ""
	defer func() {
		r += trace + "|" + classify(recover())
	}()
	r = "pre;"
	sl := make([]int, 3, 5); arr := [3]int{1, 2, 3}; str := "abc"; parr := &arr; sub := sl[1:2]; _, _, _, _, _ = sl, arr, str, parr, sub; lo, hi, mx := 4, 4, 0; _, _, _ = lo, hi, mx
	use(cap(sl[lo:hi:mx]))
	r += "post;"
	return
}

// slice arr[:5]
func p66() (r string) {
	trace = ""
	defer func() {
		r += trace + "|" + classify(recover())
	}()
	r = "pre;"
	sl := make([]int, 3, 5); arr := [3]int{1, 2, 3}; str := "abc"; parr := &arr; sub := sl[1:2]; _, _, _, _, _ = sl, arr, str, parr, sub; lo, hi, mx := 5, 5, 2; _, _, _ = lo, hi, mx
	use(len(arr[:hi]))
	r += "post;"
	return
}

// slice3 sl[-1:6:mx]
func p67() (r string) {
	trace = ""
	defer func() {
		r += trace + "|" + classify(recover())
	}()
	r = "pre;"
	sl := make([]int, 3, 5); arr := [3]int{1, 2, 3}; str := "abc"; parr := &arr; sub := sl[1:2]; _, _, _, _, _ = sl, arr, str, parr, sub; lo, hi, mx := -1, 6, 3; _, _, _ = lo, hi, mx
	use(cap(sl[lo:hi:mx]))
	r += "post;"
	return
}

// slice3 parr[0:-1:mx]
func p68() (r string) {
	trace = ""
	defer func() {
		r += trace + "|" + classify(recover())
	}()
	r = "pre;"
	sl := make([]int, 3, 5); arr := [3]int{1, 2, 3}; str := "abc"; parr := &arr; sub := sl[1:2]; _, _, _, _, _ = sl, arr, str, parr, sub; lo, hi, mx := 0, -1, 5; _, _, _ = lo, hi, mx
	use(cap(parr[lo:hi:mx]))
	r += "post;"
	return
}

// slice sub[1:0]
func p69() (r string) {
	trace = ""
	defer func() {
		r += trace + "|" + classify(recover())
	}()
	r = "pre;"
	sl := make([]int, 3, 5); arr := [3]int{1, 2, 3}; str := "abc"; parr := &arr; sub := sl[1:2]; _, _, _, _, _ = sl, arr, str, parr, sub; lo, hi, mx := 1, 0, 6; _, _, _ = lo, hi, mx
	use(len(sub[lo:hi]))
	r += "post;"
	return
}

// slice sl[:1]
func p70() (r string) {
	trace = ""
	defer func() {
		r += trace + "|" + classify(recover())
	}()
	r = "pre;"
	sl := make([]int, 3, 5); arr := [3]int{1, 2, 3}; str := "abc"; parr := &arr; sub := sl[1:2]; _, _, _, _, _ = sl, arr, str, parr, sub; lo, hi, mx := 2, 1, 0; _, _, _ = lo, hi, mx
	use(len(sl[:hi]))
	r += "post;"
	return
}

// slice arr[:2]
func p71() (r string) {
	trace = ""
	defer func() {
		r += trace + "|" + classify(recover())
	}()
	r = "pre;"
	sl := make([]int, 3, 5); arr := [3]int{1, 2, 3}; str := "abc"; parr := &arr; sub := sl[1:2]; _, _, _, _, _ = sl, arr, str, parr, sub; lo, hi, mx := 3, 2, 2; _, _, _ = lo, hi, mx
	use(len(arr[:hi]))
	r += "post;"
	return
}

// slice str[:3]
func p72() (r string) {
	trace = ""
	defer func() {
		r += trace + "|" + classify(recover())
	}()
	r = "pre;"
	sl := make([]int, 3, 5); arr := [3]int{1, 2, 3}; str := "abc"; parr := &arr; sub := sl[1:2]; _, _, _, _, _ = sl, arr, str, parr, sub; lo, hi, mx := 4, 3, 3; _, _, _ = lo, hi, mx
	use(len(str[:hi]))
	r += "post;"
	return
}

// slice parr[:4]
func p73() (r string) {
	trace = ""
	defer func() {
		r += trace + "|" + classify(recover())
	}()
	r = "pre;"
	sl := make([]int, 3, 5); arr := [3]int{1, 2, 3}; str := "abc"; parr := &arr; sub := sl[1:2]; _, _, _, _, _ = sl, arr, str, parr, sub; lo, hi, mx := 5, 4, 5; _, _, _ = lo, hi, mx
	use(len(parr[:hi]))
	r += "post;"
	return
}

// slice sub[:5]
func p74() (r string) {
	trace = ""
	defer func() {
		r += trace + "|" + classify(recover())
	}()
	r = "pre;"
	sl := make([]int, 3, 5); arr := [3]int{1, 2, 3}; str := "abc"; parr := &arr; sub := sl[1:2]; _, _, _, _, _ = sl, arr, str, parr, sub; lo, hi, mx := -1, 5, 6; _, _, _ = lo, hi, mx
	use(len(sub[:hi]))
	r += "post;"
	return
}

// slice3 sl[0:6:mx]
func p75() (r string) {
	trace = ""
	defer func() {
		r += trace + "|" + classify(recover())
	}()
	r = "pre;"
	sl := make([]int, 3, 5); arr := [3]int{1, 2, 3}; str := "abc"; parr := &arr; sub := sl[1:2]; _, _, _, _, _ = sl, arr, str, parr, sub; lo, hi, mx := 0, 6, 0; _, _, _ = lo, hi, mx
	use(cap(sl[lo:hi:mx]))
	r += "post;"
	return
}

// slice3 arr[1:-1:mx]
func p76() (r string) {
	trace = ""
	defer func() {
		r += trace + "|" + classify(recover())
	}()
	r = "pre;"
	sl := make([]int, 3, 5); arr := [3]int{1, 2, 3}; str := "abc"; parr := &arr; sub := sl[1:2]; _, _, _, _, _ = sl, arr, str, parr, sub; lo, hi, mx := 1, -1, 2; _, _, _ = lo, hi, mx
	use(cap(arr[lo:hi:mx]))
	r += "post;"
	return
}

// slice3 sl[2:0:mx]
func p77() (r string) {
	trace = ""
	defer func() {
		r += trace + "|" + classify(recover())
	}()
	r = "pre;"
	sl := make([]int, 3, 5); arr := [3]int{1, 2, 3}; str := "abc"; parr := &arr; sub := sl[1:2]; _, _, _, _, _ = sl, arr, str, parr, sub; lo, hi, mx := 2, 0, 3; _, _, _ = lo, hi, mx
	use(cap(sl[lo:hi:mx]))
	r += "post;"
	return
}

// slice3 parr[3:1:mx]
func p78() (r string) {
	trace = ""
	defer func() {
		r += trace + "|" + classify(recover())
	}()
	r = "pre;"
	sl := make([]int, 3, 5); arr := [3]int{1, 2, 3}; str := "abc"; parr := &arr; sub := sl[1:2]; _, _, _, _, _ = sl, arr, str, parr, sub; lo, hi, mx := 3, 1, 5; _, _, _ = lo, hi, mx
	use(cap(parr[lo:hi:mx]))
	r += "post;"
	return
}

// slice sub[4:]
func p79() (r string) {
	trace = ""
	defer func() {
		r += trace + "|" + classify(recover())
	}()
	r = "pre;"
	sl := make([]int, 3, 5); arr := [3]int{1, 2, 3}; str := "abc"; parr := &arr; sub := sl[1:2]; _, _, _, _, _ = sl, arr, str, parr, sub; lo, hi, mx := 4, 2, 6; _, _, _ = lo, hi, mx
	use(len(sub[lo:]))
	r += "post;"
	return
}

// nil-map m["k"] = lg(1, 1)
func p80() (r string) {
	trace = ""
	defer func() {
		r += trace + "|" + classify(recover())
	}()
	r = "pre;"
	var m map[string]int; var t T; mm := map[string]map[string]int{}; _, _, _ = m, t, mm
	m["k"] = lg(1, 1)
	r += "post;"
	return
}

// nil-map t.m["k"] = 1
func p81() (r string) {
	trace = ""
	defer func() {
		r += trace + "|" + classify(recover())
	}()
	r = "pre;"
	var m map[string]int; var t T; mm := map[string]map[string]int{}; _, _, _ = m, t, mm
	t.m["k"] = 1
	r += "post;"
	return
}

// nil-map mm["a"]["b"] = 1
func p82() (r string) {
	trace = ""
	defer func() {
		r += trace + "|" + classify(recover())
	}()
	r = "pre;"
	var m map[string]int; var t T; mm := map[string]map[string]int{}; _, _, _ = m, t, mm
	mm["a"]["b"] = 1
	r += "post;"
	return
}

// nil-map m["k"]++
func p83() (r string) {
	trace = ""
	defer func() {
		r += trace + "|" + classify(recover())
	}()
	r = "pre;"
	var m map[string]int; var t T; mm := map[string]map[string]int{}; _, _, _ = m, t, mm
	m["k"]++
	r += "post;"
	return
}

// nil-map m["k"] += 2
func p84() (r string) {
	trace = ""
	defer func() {
		r += trace + "|" + classify(recover())
	}()
	r = "pre;"
	var m map[string]int; var t T; mm := map[string]map[string]int{}; _, _, _ = m, t, mm
	m["k"] += 2
	r += "post;"
	return
}

// nil-map use(m["k"])
func p85() (r string) {
	trace = ""
	defer func() {
		r += trace + "|" + classify(recover())
	}()
	r = "pre;"
	var m map[string]int; var t T; mm := map[string]map[string]int{}; _, _, _ = m, t, mm
	use(m["k"])
	r += "post;"
	return
}

// nil-map delete(m, "k")
func p86() (r string) {
	trace = ""
	defer func() {
		r += trace + "|" + classify(recover())
	}()
	r = "pre;"
	var m map[string]int; var t T; mm := map[string]map[string]int{}; _, _, _ = m, t, mm
	delete(m, "k")
	r += "post;"
	return
}

// nil-map use(len(m))
func p87() (r string) {
	trace = ""
	defer func() {
		r += trace + "|" + classify(recover())
	}()
	r = "pre;"
	var m map[string]int; var t T; mm := map[string]map[string]int{}; _, _, _ = m, t, mm
	use(len(m))
	r += "post;"
	return
}

// nil-map for range m { use(1) }
func p88() (r string) {
	trace = ""
	defer func() {
		r += trace + "|" + classify(recover())
	}()
	r = "pre;"
	var m map[string]int; var t T; mm := map[string]map[string]int{}; _, _, _ = m, t, mm
	for range m { use(1) }
	r += "post;"
	return
}

// nil-map m["k"] = lg(1, 1)
func p89() (r string) {
	trace = ""
	defer func() {
		r += trace + "|" + classify(recover())
	}()
	r = "pre;"
	var m map[string]int; var t T; mm := map[string]map[string]int{}; _, _, _ = m, t, mm
	m["k"] = lg(1, 1)
	r += "post;"
	return
}

// nil-map t.m["k"] = 1
func p90() (r string) {
	trace = ""
	defer func() {
		r += trace + "|" + classify(recover())
	}()
	r = "pre;"
	var m map[string]int; var t T; mm := map[string]map[string]int{}; _, _, _ = m, t, mm
	t.m["k"] = 1
	r += "post;"
	return
}

// nil-map mm["a"]["b"] = 1
func p91() (r string) {
	trace = ""
	defer func() {
		r += trace + "|" + classify(recover())
	}()
	r = "pre;"
	var m map[string]int; var t T; mm := map[string]map[string]int{}; _, _, _ = m, t, mm
	mm["a"]["b"] = 1
	r += "post;"
	return
}

// nil-map m["k"]++
func p92() (r string) {
	trace = ""
	defer func() {
		r += trace + "|" + classify(recover())
	}()
	r = "pre;"
	var m map[string]int; var t T; mm := map[string]map[string]int{}; _, _, _ = m, t, mm
	m["k"]++
	r += "post;"
	return
}

// nil-map m["k"] += 2
func p93() (r string) {
	trace = ""
	defer func() {
		r += trace + "|" + classify(recover())
	}()
	r = "pre;"
	var m map[string]int; var t T; mm := map[string]map[string]int{}; _, _, _ = m, t, mm
	m["k"] += 2
	r += "post;"
	return
}

// nil-map use(m["k"])
func p94() (r string) {
	trace = ""
	defer func() {
		r += trace + "|" + classify(recover())
	}()
	r = "pre;"
	var m map[string]int; var t T; mm := map[string]map[string]int{}; _, _, _ = m, t, mm
	use(m["k"])
	r += "post;"
	return
}

// nil-map delete(m, "k")
func p95() (r string) {
	trace = ""
	defer func() {
		r += trace + "|" + classify(recover())
	}()
	r = "pre;"
	var m map[string]int; var t T; mm := map[string]map[string]int{}; _, _, _ = m, t, mm
	delete(m, "k")
	r += "post;"
	return
}

// nil-map use(len(m))
func p96() (r string) {
	trace = ""
	defer func() {
		r += trace + "|" + classify(recover())
	}()
	r = "pre;"
	var m map[string]int; var t T; mm := map[string]map[string]int{}; _, _, _ = m, t, mm
	use(len(m))
	r += "post;"
	return
}

// nil-map for range m { use(1) }
func p97() (r string) {
	trace = ""
	defer func() {
		r += trace + "|" + classify(recover())
	}()
	r = "pre;"
	var m map[string]int; var t T; mm := map[string]map[string]int{}; _, _, _ = m, t, mm
	for range m { use(1) }
	r += "post;"
	return
}

// nil-map m["k"] = lg(1, 1)
func p98() (r string) {
	trace = ""
	defer func() {
		r += trace + "|" + classify(recover())
	}()
	r = "pre;"
	var m map[string]int; var t T; mm := map[string]map[string]int{}; _, _, _ = m, t, mm
	m["k"] = lg(1, 1)
	r += "post;"
	return
}

// nil-map t.m["k"] = 1
func p99() (r string) {
	trace = ""
	defer func() {
		r += trace + "|" + classify(recover())
	}()
	r = "pre;"
	var m map[string]int; var t T; mm := map[string]map[string]int{}; _, _, _ = m, t, mm
	t.m["k"] = 1
	r += "post;"
	return
}

// nil-pointer use(p.a)
func p100() (r string) {
	trace = ""
	defer func() {
		r += trace + "|" + classify(recover())
	}()
	r = "pre;"
	var p *T; var pp **T; q := &T{}; var pi *int; var parr *[3]int; _, _, _, _, _ = p, pp, q, pi, parr
	use(p.a)
	r += "post;"
	return
}

// nil-pointer p.a = lg(1, 3)
func p101() (r string) {
	trace = ""
	defer func() {
		r += trace + "|" + classify(recover())
	}()
	r = "pre;"
	var p *T; var pp **T; q := &T{}; var pi *int; var parr *[3]int; _, _, _, _, _ = p, pp, q, pi, parr
	p.a = lg(1, 3)
	r += "post;"
	return
}

// nil-pointer use(p.val())
func p102() (r string) {
	trace = ""
	defer func() {
		r += trace + "|" + classify(recover())
	}()
	r = "pre;"
	var p *T; var pp **T; q := &T{}; var pi *int; var parr *[3]int; _, _, _, _, _ = p, pp, q, pi, parr
	use(p.val())
	r += "post;"
	return
}

// nil-pointer use(p.ptr())
func p103() (r string) {
	trace = ""
	defer func() {
		r += trace + "|" + classify(recover())
	}()
	r = "pre;"
	var p *T; var pp **T; q := &T{}; var pi *int; var parr *[3]int; _, _, _, _, _ = p, pp, q, pi, parr
	use(p.ptr())
	r += "post;"
	return
}

// nil-pointer use(p.nop())
func p104() (r string) {
	trace = ""
	defer func() {
		r += trace + "|" + classify(recover())
	}()
	r = "pre;"
	var p *T; var pp **T; q := &T{}; var pi *int; var parr *[3]int; _, _, _, _, _ = p, pp, q, pi, parr
	use(p.nop())
	r += "post;"
	return
}

// nil-pointer use(q.p.a)
func p105() (r string) {
	trace = ""
	defer func() {
		r += trace + "|" + classify(recover())
	}()
	r = "pre;"
	var p *T; var pp **T; q := &T{}; var pi *int; var parr *[3]int; _, _, _, _, _ = p, pp, q, pi, parr
	use(q.p.a)
	r += "post;"
	return
}

// nil-pointer use(*pi)
func p106() (r string) {
	trace = ""
	defer func() {
		r += trace + "|" + classify(recover())
	}()
	r = "pre;"
	var p *T; var pp **T; q := &T{}; var pi *int; var parr *[3]int; _, _, _, _, _ = p, pp, q, pi, parr
	use(*pi)
	r += "post;"
	return
}

// nil-pointer *pi = 4
func p107() (r string) {
	trace = ""
	defer func() {
		r += trace + "|" + classify(recover())
	}()
	r = "pre;"
	var p *T; var pp **T; q := &T{}; var pi *int; var parr *[3]int; _, _, _, _, _ = p, pp, q, pi, parr
	*pi = 4
	r += "post;"
	return
}

// nil-pointer use((*pp).a)
func p108() (r string) {
	trace = ""
	defer func() {
		r += trace + "|" + classify(recover())
	}()
	r = "pre;"
	var p *T; var pp **T; q := &T{}; var pi *int; var parr *[3]int; _, _, _, _, _ = p, pp, q, pi, parr
	use((*pp).a)
	r += "post;"
	return
}

// nil-pointer use(parr[1])
func p109() (r string) {
	trace = ""
	defer func() {
		r += trace + "|" + classify(recover())
	}()
	r = "pre;"
	var p *T; var pp **T; q := &T{}; var pi *int; var parr *[3]int; _, _, _, _, _ = p, pp, q, pi, parr
	use(parr[1])
	r += "post;"
	return
}

// nil-pointer parr[1] = 2
func p110() (r string) {
	trace = ""
	defer func() {
		r += trace + "|" + classify(recover())
	}()
	r = "pre;"
	var p *T; var pp **T; q := &T{}; var pi *int; var parr *[3]int; _, _, _, _, _ = p, pp, q, pi, parr
	parr[1] = 2
	r += "post;"
	return
}

// nil-pointer use(len(parr[:]))
func p111() (r string) {
	trace = ""
	defer func() {
		r += trace + "|" + classify(recover())
	}()
	r = "pre;"
	var p *T; var pp **T; q := &T{}; var pi *int; var parr *[3]int; _, _, _, _, _ = p, pp, q, pi, parr
	use(len(parr[:]))
	r += "post;"
	return
}

// nil-pointer use(len(parr))
func p112() (r string) {
	trace = ""
	defer func() {
		r += trace + "|" + classify(recover())
	}()
	r = "pre;"
	var p *T; var pp **T; q := &T{}; var pi *int; var parr *[3]int; _, _, _, _, _ = p, pp, q, pi, parr
	use(len(parr))
	r += "post;"
	return
}

// nil-pointer for i := range parr { use(i) }
func p113() (r string) {
	trace = ""
	defer func() {
		r += trace + "|" + classify(recover())
	}()
	r = "pre;"
	var p *T; var pp **T; q := &T{}; var pi *int; var parr *[3]int; _, _, _, _, _ = p, pp, q, pi, parr
	for i := range parr { use(i) }
	r += "post;"
	return
}

// nil-pointer for _, v := range parr { use(v) }
func p114() (r string) {
	trace = ""
	defer func() {
		r += trace + "|" + classify(recover())
	}()
	r = "pre;"
	var p *T; var pp **T; q := &T{}; var pi *int; var parr *[3]int; _, _, _, _, _ = p, pp, q, pi, parr
	for _, v := range parr { use(v) }
	r += "post;"
	return
}

// nil-pointer x := *p; use(x.a)
func p115() (r string) {
	trace = ""
	defer func() {
		r += trace + "|" + classify(recover())
	}()
	r = "pre;"
	var p *T; var pp **T; q := &T{}; var pi *int; var parr *[3]int; _, _, _, _, _ = p, pp, q, pi, parr
	x := *p; use(x.a)
	r += "post;"
	return
}

// nil-pointer f := p.val; use(f())
func p116() (r string) {
	trace = ""
	defer func() {
		r += trace + "|" + classify(recover())
	}()
	r = "pre;"
	var p *T; var pp **T; q := &T{}; var pi *int; var parr *[3]int; _, _, _, _, _ = p, pp, q, pi, parr
	f := p.val; use(f())
	r += "post;"
	return
}

// nil-pointer g := p.ptr; use(g())
func p117() (r string) {
	trace = ""
	defer func() {
		r += trace + "|" + classify(recover())
	}()
	r = "pre;"
	var p *T; var pp **T; q := &T{}; var pi *int; var parr *[3]int; _, _, _, _, _ = p, pp, q, pi, parr
	g := p.ptr; use(g())
	r += "post;"
	return
}

// nil-pointer use(len(q.s))
func p118() (r string) {
	trace = ""
	defer func() {
		r += trace + "|" + classify(recover())
	}()
	r = "pre;"
	var p *T; var pp **T; q := &T{}; var pi *int; var parr *[3]int; _, _, _, _, _ = p, pp, q, pi, parr
	use(len(q.s))
	r += "post;"
	return
}

// nil-pointer use(len(p.s))
func p119() (r string) {
	trace = ""
	defer func() {
		r += trace + "|" + classify(recover())
	}()
	r = "pre;"
	var p *T; var pp **T; q := &T{}; var pi *int; var parr *[3]int; _, _, _, _, _ = p, pp, q, pi, parr
	use(len(p.s))
	r += "post;"
	return
}

// nil-pointer use(p.a)
func p120() (r string) {
	trace = ""
	defer func() {
		r += trace + "|" + classify(recover())
	}()
	r = "pre;"
	var p *T; var pp **T; q := &T{}; var pi *int; var parr *[3]int; _, _, _, _, _ = p, pp, q, pi, parr
	use(p.a)
	r += "post;"
	return
}

// nil-pointer p.a = lg(1, 3)
func p121() (r string) {
	trace = ""
	defer func() {
		r += trace + "|" + classify(recover())
	}()
	r = "pre;"
	var p *T; var pp **T; q := &T{}; var pi *int; var parr *[3]int; _, _, _, _, _ = p, pp, q, pi, parr
	p.a = lg(1, 3)
	r += "post;"
	return
}

// nil-pointer use(p.val())
func p122() (r string) {
	trace = ""
	defer func() {
		r += trace + "|" + classify(recover())
	}()
	r = "pre;"
	var p *T; var pp **T; q := &T{}; var pi *int; var parr *[3]int; _, _, _, _, _ = p, pp, q, pi, parr
	use(p.val())
	r += "post;"
	return
}

// nil-pointer use(p.ptr())
func p123() (r string) {
	trace = ""
	defer func() {
		r += trace + "|" + classify(recover())
	}()
	r = "pre;"
	var p *T; var pp **T; q := &T{}; var pi *int; var parr *[3]int; _, _, _, _, _ = p, pp, q, pi, parr
	use(p.ptr())
	r += "post;"
	return
}

// nil-pointer use(p.nop())
func p124() (r string) {
	trace = ""
	defer func() {
		r += trace + "|" + classify(recover())
	}()
	r = "pre;"
	var p *T; var pp **T; q := &T{}; var pi *int; var parr *[3]int; _, _, _, _, _ = p, pp, q, pi, parr
	use(p.nop())
	r += "post;"
	return
}

// nil-pointer use(q.p.a)
func p125() (r string) {
	trace = ""
	defer func() {
		r += trace + "|" + classify(recover())
	}()
	r = "pre;"
	var p *T; var pp **T; q := &T{}; var pi *int; var parr *[3]int; _, _, _, _, _ = p, pp, q, pi, parr
	use(q.p.a)
	r += "post;"
	return
}

// nil-pointer use(*pi)
func p126() (r string) {
	trace = ""
	defer func() {
		r += trace + "|" + classify(recover())
	}()
	r = "pre;"
	var p *T; var pp **T; q := &T{}; var pi *int; var parr *[3]int; _, _, _, _, _ = p, pp, q, pi, parr
	use(*pi)
	r += "post;"
	return
}

// nil-pointer *pi = 4
func p127() (r string) {
	trace = ""
	defer func() {
		r += trace + "|" + classify(recover())
	}()
	r = "pre;"
	var p *T; var pp **T; q := &T{}; var pi *int; var parr *[3]int; _, _, _, _, _ = p, pp, q, pi, parr
	*pi = 4
	r += "post;"
	return
}

// nil-pointer use((*pp).a)
func p128() (r string) {
	trace = ""
	defer func() {
		r += trace + "|" + classify(recover())
	}()
	r = "pre;"
	var p *T; var pp **T; q := &T{}; var pi *int; var parr *[3]int; _, _, _, _, _ = p, pp, q, pi, parr
	use((*pp).a)
	r += "post;"
	return
}

// nil-pointer use(parr[1])
func p129() (r string) {
	trace = ""
	defer func() {
		r += trace + "|" + classify(recover())
	}()
	r = "pre;"
	var p *T; var pp **T; q := &T{}; var pi *int; var parr *[3]int; _, _, _, _, _ = p, pp, q, pi, parr
	use(parr[1])
	r += "post;"
	return
}

// nil-pointer parr[1] = 2
func p130() (r string) {
	trace = ""
	defer func() {
		r += trace + "|" + classify(recover())
	}()
	r = "pre;"
	var p *T; var pp **T; q := &T{}; var pi *int; var parr *[3]int; _, _, _, _, _ = p, pp, q, pi, parr
	parr[1] = 2
	r += "post;"
	return
}

// nil-pointer use(len(parr[:]))
func p131() (r string) {
	trace = ""
	defer func() {
		r += trace + "|" + classify(recover())
	}()
	r = "pre;"
	var p *T; var pp **T; q := &T{}; var pi *int; var parr *[3]int; _, _, _, _, _ = p, pp, q, pi, parr
	use(len(parr[:]))
	r += "post;"
	return
}

// nil-pointer use(len(parr))
func p132() (r string) {
	trace = ""
	defer func() {
		r += trace + "|" + classify(recover())
	}()
	r = "pre;"
	var p *T; var pp **T; q := &T{}; var pi *int; var parr *[3]int; _, _, _, _, _ = p, pp, q, pi, parr
	use(len(parr))
	r += "post;"
	return
}

// nil-pointer for i := range parr { use(i) }
func p133() (r string) {
	trace = ""
	defer func() {
		r += trace + "|" + classify(recover())
	}()
	r = "pre;"
	var p *T; var pp **T; q := &T{}; var pi *int; var parr *[3]int; _, _, _, _, _ = p, pp, q, pi, parr
	for i := range parr { use(i) }
	r += "post;"
	return
}

// nil-pointer for _, v := range parr { use(v) }
func p134() (r string) {
	trace = ""
	defer func() {
		r += trace + "|" + classify(recover())
	}()
	r = "pre;"
	var p *T; var pp **T; q := &T{}; var pi *int; var parr *[3]int; _, _, _, _, _ = p, pp, q, pi, parr
	for _, v := range parr { use(v) }
	r += "post;"
	return
}

// nil-pointer x := *p; use(x.a)
func p135() (r string) {
	trace = ""
	defer func() {
		r += trace + "|" + classify(recover())
	}()
	r = "pre;"
	var p *T; var pp **T; q := &T{}; var pi *int; var parr *[3]int; _, _, _, _, _ = p, pp, q, pi, parr
	x := *p; use(x.a)
	r += "post;"
	return
}

// nil-pointer f := p.val; use(f())
func p136() (r string) {
	trace = ""
	defer func() {
		r += trace + "|" + classify(recover())
	}()
	r = "pre;"
	var p *T; var pp **T; q := &T{}; var pi *int; var parr *[3]int; _, _, _, _, _ = p, pp, q, pi, parr
	f := p.val; use(f())
	r += "post;"
	return
}

// nil-pointer g := p.ptr; use(g())
func p137() (r string) {
	trace = ""
	defer func() {
		r += trace + "|" + classify(recover())
	}()
	r = "pre;"
	var p *T; var pp **T; q := &T{}; var pi *int; var parr *[3]int; _, _, _, _, _ = p, pp, q, pi, parr
	g := p.ptr; use(g())
	r += "post;"
	return
}

// nil-pointer use(len(q.s))
func p138() (r string) {
	trace = ""
	defer func() {
		r += trace + "|" + classify(recover())
	}()
	r = "pre;"
	var p *T; var pp **T; q := &T{}; var pi *int; var parr *[3]int; _, _, _, _, _ = p, pp, q, pi, parr
	use(len(q.s))
	r += "post;"
	return
}

// nil-pointer use(len(p.s))
func p139() (r string) {
	trace = ""
	defer func() {
		r += trace + "|" + classify(recover())
	}()
	r = "pre;"
	var p *T; var pp **T; q := &T{}; var pi *int; var parr *[3]int; _, _, _, _, _ = p, pp, q, pi, parr
	use(len(p.s))
	r += "post;"
	return
}

// nil-func use(f(lg(1, 2)))
func p140() (r string) {
	trace = ""
	defer func() {
		r += trace + "|" + classify(recover())
	}()
	r = "pre;"
	var f func(int) int; var t struct{ g func() }; _, _ = f, t
	use(f(lg(1, 2)))
	r += "post;"
	return
}

// nil-func t.g()
func p141() (r string) {
	trace = ""
	defer func() {
		r += trace + "|" + classify(recover())
	}()
	r = "pre;"
	var f func(int) int; var t struct{ g func() }; _, _ = f, t
	t.g()
	r += "post;"
	return
}

// nil-func defer f(1)
func p142() (r string) {
	trace = ""
	defer func() {
		r += trace + "|" + classify(recover())
	}()
	r = "pre;"
	var f func(int) int; var t struct{ g func() }; _, _ = f, t
	defer f(1)
	r += "post;"
	return
}

// nil-func use(f(lg(1, 2)))
func p143() (r string) {
	trace = ""
	defer func() {
		r += trace + "|" + classify(recover())
	}()
	r = "pre;"
	var f func(int) int; var t struct{ g func() }; _, _ = f, t
	use(f(lg(1, 2)))
	r += "post;"
	return
}

// nil-func t.g()
func p144() (r string) {
	trace = ""
	defer func() {
		r += trace + "|" + classify(recover())
	}()
	r = "pre;"
	var f func(int) int; var t struct{ g func() }; _, _ = f, t
	t.g()
	r += "post;"
	return
}

// nil-func defer f(1)
func p145() (r string) {
	trace = ""
	defer func() {
		r += trace + "|" + classify(recover())
	}()
	r = "pre;"
	var f func(int) int; var t struct{ g func() }; _, _ = f, t
	defer f(1)
	r += "post;"
	return
}

// nil-func use(f(lg(1, 2)))
func p146() (r string) {
	trace = ""
	defer func() {
		r += trace + "|" + classify(recover())
	}()
	r = "pre;"
	var f func(int) int; var t struct{ g func() }; _, _ = f, t
	use(f(lg(1, 2)))
	r += "post;"
	return
}

// nil-func t.g()
func p147() (r string) {
	trace = ""
	defer func() {
		r += trace + "|" + classify(recover())
	}()
	r = "pre;"
	var f func(int) int; var t struct{ g func() }; _, _ = f, t
	t.g()
	r += "post;"
	return
}

// nil-func defer f(1)
func p148() (r string) {
	trace = ""
	defer func() {
		r += trace + "|" + classify(recover())
	}()
	r = "pre;"
	var f func(int) int; var t struct{ g func() }; _, _ = f, t
	defer f(1)
	r += "post;"
	return
}

// nil-func use(f(lg(1, 2)))
func p149() (r string) {
	trace = ""
	defer func() {
		r += trace + "|" + classify(recover())
	}()
	r = "pre;"
	var f func(int) int; var t struct{ g func() }; _, _ = f, t
	use(f(lg(1, 2)))
	r += "post;"
	return
}

// nil-func t.g()
func p150() (r string) {
	trace = ""
	defer func() {
		r += trace + "|" + classify(recover())
	}()
	r = "pre;"
	var f func(int) int; var t struct{ g func() }; _, _ = f, t
	t.g()
	r += "post;"
	return
}

// nil-func defer f(1)
func p151() (r string) {
	trace = ""
	defer func() {
		r += trace + "|" + classify(recover())
	}()
	r = "pre;"
	var f func(int) int; var t struct{ g func() }; _, _ = f, t
	defer f(1)
	r += "post;"
	return
}

// nil-func use(f(lg(1, 2)))
func p152() (r string) {
	trace = ""
	defer func() {
		r += trace + "|" + classify(recover())
	}()
	r = "pre;"
	var f func(int) int; var t struct{ g func() }; _, _ = f, t
	use(f(lg(1, 2)))
	r += "post;"
	return
}

// nil-func t.g()
func p153() (r string) {
	trace = ""
	defer func() {
		r += trace + "|" + classify(recover())
	}()
	r = "pre;"
	var f func(int) int; var t struct{ g func() }; _, _ = f, t
	t.g()
	r += "post;"
	return
}

// nil-func defer f(1)
func p154() (r string) {
	trace = ""
	defer func() {
		r += trace + "|" + classify(recover())
	}()
	r = "pre;"
	var f func(int) int; var t struct{ g func() }; _, _ = f, t
	defer f(1)
	r += "post;"
	return
}

// div int by 0: use(int(a / b))
func p155() (r string) {
	trace = ""
	defer func() {
		r += trace + "|" + classify(recover())
	}()
	r = "pre;"
	a, b := int(7), int(0); _, _ = a, b
	use(int(a / b))
	r += "post;"
	return
}

// div int8 by 0: use(int(a % b))
func p156() (r string) {
	trace = ""
	defer func() {
		r += trace + "|" + classify(recover())
	}()
	r = "pre;"
	a, b := int8(7), int8(0); _, _ = a, b
	use(int(a % b))
	r += "post;"
	return
}

// div int16 by 1: a /= b; use(int(a))
func p157() (r string) {
	trace = ""
	defer func() {
		r += trace + "|" + classify(recover())
	}()
	r = "pre;"
	a, b := int16(7), int16(1); _, _ = a, b
	a /= b; use(int(a))
	r += "post;"
	return
}

// div int32 by 3: a %= b; use(int(a))
func p158() (r string) {
	trace = ""
	defer func() {
		r += trace + "|" + classify(recover())
	}()
	r = "pre;"
	a, b := int32(7), int32(3); _, _ = a, b
	a %= b; use(int(a))
	r += "post;"
	return
}

// div int64 by 0: use(int(int64(lg(1, 7)) / int64(lg(2, 0))))
func p159() (r string) {
	trace = ""
	defer func() {
		r += trace + "|" + classify(recover())
	}()
	r = "pre;"
	a, b := int64(7), int64(0); _, _ = a, b
	use(int(int64(lg(1, 7)) / int64(lg(2, 0))))
	r += "post;"
	return
}

// div uint by 0: use(int(a / b))
func p160() (r string) {
	trace = ""
	defer func() {
		r += trace + "|" + classify(recover())
	}()
	r = "pre;"
	a, b := uint(7), uint(0); _, _ = a, b
	use(int(a / b))
	r += "post;"
	return
}

// div uint8 by 1: use(int(a % b))
func p161() (r string) {
	trace = ""
	defer func() {
		r += trace + "|" + classify(recover())
	}()
	r = "pre;"
	a, b := uint8(7), uint8(1); _, _ = a, b
	use(int(a % b))
	r += "post;"
	return
}

// div uint16 by 3: a /= b; use(int(a))
func p162() (r string) {
	trace = ""
	defer func() {
		r += trace + "|" + classify(recover())
	}()
	r = "pre;"
	a, b := uint16(7), uint16(3); _, _ = a, b
	a /= b; use(int(a))
	r += "post;"
	return
}

// div uint32 by 0: a %= b; use(int(a))
func p163() (r string) {
	trace = ""
	defer func() {
		r += trace + "|" + classify(recover())
	}()
	r = "pre;"
	a, b := uint32(7), uint32(0); _, _ = a, b
	a %= b; use(int(a))
	r += "post;"
	return
}

// div uint64 by 0: use(int(uint64(lg(1, 7)) / uint64(lg(2, 0))))
func p164() (r string) {
	trace = ""
	defer func() {
		r += trace + "|" + classify(recover())
	}()
	r = "pre;"
	a, b := uint64(7), uint64(0); _, _ = a, b
	use(int(uint64(lg(1, 7)) / uint64(lg(2, 0))))
	r += "post;"
	return
}

// div uintptr by 1: use(int(a / b))
func p165() (r string) {
	trace = ""
	defer func() {
		r += trace + "|" + classify(recover())
	}()
	r = "pre;"
	a, b := uintptr(7), uintptr(1); _, _ = a, b
	use(int(a / b))
	r += "post;"
	return
}

// div int by 3: use(int(a % b))
func p166() (r string) {
	trace = ""
	defer func() {
		r += trace + "|" + classify(recover())
	}()
	r = "pre;"
	a, b := int(7), int(3); _, _ = a, b
	use(int(a % b))
	r += "post;"
	return
}

// div int8 by 0: a /= b; use(int(a))
func p167() (r string) {
	trace = ""
	defer func() {
		r += trace + "|" + classify(recover())
	}()
	r = "pre;"
	a, b := int8(7), int8(0); _, _ = a, b
	a /= b; use(int(a))
	r += "post;"
	return
}

// div int16 by 0: a %= b; use(int(a))
func p168() (r string) {
	trace = ""
	defer func() {
		r += trace + "|" + classify(recover())
	}()
	r = "pre;"
	a, b := int16(7), int16(0); _, _ = a, b
	a %= b; use(int(a))
	r += "post;"
	return
}

// div int32 by 1: use(int(int32(lg(1, 7)) / int32(lg(2, 1))))
func p169() (r string) {
	trace = ""
	defer func() {
		r += trace + "|" + classify(recover())
	}()
	r = "pre;"
	a, b := int32(7), int32(1); _, _ = a, b
	use(int(int32(lg(1, 7)) / int32(lg(2, 1))))
	r += "post;"
	return
}

// div int64 by 3: use(int(a / b))
func p170() (r string) {
	trace = ""
	defer func() {
		r += trace + "|" + classify(recover())
	}()
	r = "pre;"
	a, b := int64(7), int64(3); _, _ = a, b
	use(int(a / b))
	r += "post;"
	return
}

// div uint by 0: use(int(a % b))
func p171() (r string) {
	trace = ""
	defer func() {
		r += trace + "|" + classify(recover())
	}()
	r = "pre;"
	a, b := uint(7), uint(0); _, _ = a, b
	use(int(a % b))
	r += "post;"
	return
}

// div uint8 by 0: a /= b; use(int(a))
func p172() (r string) {
	trace = ""
	defer func() {
		r += trace + "|" + classify(recover())
	}()
	r = "pre;"
	a, b := uint8(7), uint8(0); _, _ = a, b
	a /= b; use(int(a))
	r += "post;"
	return
}

// div uint16 by 1: a %= b; use(int(a))
func p173() (r string) {
	trace = ""
	defer func() {
		r += trace + "|" + classify(recover())
	}()
	r = "pre;"
	a, b := uint16(7), uint16(1); _, _ = a, b
	a %= b; use(int(a))
	r += "post;"
	return
}

// div uint32 by 3: use(int(uint32(lg(1, 7)) / uint32(lg(2, 3))))
func p174() (r string) {
	trace = ""
	defer func() {
		r += trace + "|" + classify(recover())
	}()
	r = "pre;"
	a, b := uint32(7), uint32(3); _, _ = a, b
	use(int(uint32(lg(1, 7)) / uint32(lg(2, 3))))
	r += "post;"
	return
}

// div int by 0: use(int(a / b))
func p175() (r string) {
	trace = ""
	defer func() {
		r += trace + "|" + classify(recover())
	}()
	r = "pre;"
	a, b := int(7), int(0); _, _ = a, b
	use(int(a / b))
	r += "post;"
	return
}

// div int8 by 0: use(int(a % b))
func p176() (r string) {
	trace = ""
	defer func() {
		r += trace + "|" + classify(recover())
	}()
	r = "pre;"
	a, b := int8(7), int8(0); _, _ = a, b
	use(int(a % b))
	r += "post;"
	return
}

// div int16 by 1: a /= b; use(int(a))
func p177() (r string) {
	trace = ""
	defer func() {
		r += trace + "|" + classify(recover())
	}()
	r = "pre;"
	a, b := int16(7), int16(1); _, _ = a, b
	a /= b; use(int(a))
	r += "post;"
	return
}

// div int32 by 3: a %= b; use(int(a))
func p178() (r string) {
	trace = ""
	defer func() {
		r += trace + "|" + classify(recover())
	}()
	r = "pre;"
	a, b := int32(7), int32(3); _, _ = a, b
	a %= b; use(int(a))
	r += "post;"
	return
}

// div int64 by 0: use(int(int64(lg(1, 7)) / int64(lg(2, 0))))
func p179() (r string) {
	trace = ""
	defer func() {
		r += trace + "|" + classify(recover())
	}()
	r = "pre;"
	a, b := int64(7), int64(0); _, _ = a, b
	use(int(int64(lg(1, 7)) / int64(lg(2, 0))))
	r += "post;"
	return
}

// div uint by 0: use(int(a / b))
func p180() (r string) {
	trace = ""
	defer func() {
		r += trace + "|" + classify(recover())
	}()
	r = "pre;"
	a, b := uint(7), uint(0); _, _ = a, b
	use(int(a / b))
	r += "post;"
	return
}

// div uint8 by 1: use(int(a % b))
func p181() (r string) {
	trace = ""
	defer func() {
		r += trace + "|" + classify(recover())
	}()
	r = "pre;"
	a, b := uint8(7), uint8(1); _, _ = a, b
	use(int(a % b))
	r += "post;"
	return
}

// div uint16 by 3: a /= b; use(int(a))
func p182() (r string) {
	trace = ""
	defer func() {
		r += trace + "|" + classify(recover())
	}()
	r = "pre;"
	a, b := uint16(7), uint16(3); _, _ = a, b
	a /= b; use(int(a))
	r += "post;"
	return
}

// div uint32 by 0: a %= b; use(int(a))
func p183() (r string) {
	trace = ""
	defer func() {
		r += trace + "|" + classify(recover())
	}()
	r = "pre;"
	a, b := uint32(7), uint32(0); _, _ = a, b
	a %= b; use(int(a))
	r += "post;"
	return
}

// div uint64 by 0: use(int(uint64(lg(1, 7)) / uint64(lg(2, 0))))
func p184() (r string) {
	trace = ""
	defer func() {
		r += trace + "|" + classify(recover())
	}()
	r = "pre;"
	a, b := uint64(7), uint64(0); _, _ = a, b
	use(int(uint64(lg(1, 7)) / uint64(lg(2, 0))))
	r += "post;"
	return
}

// div uintptr by 1: use(int(a / b))
func p185() (r string) {
	trace = ""
	defer func() {
		r += trace + "|" + classify(recover())
	}()
	r = "pre;"
	a, b := uintptr(7), uintptr(1); _, _ = a, b
	use(int(a / b))
	r += "post;"
	return
}

// div int by 3: use(int(a % b))
func p186() (r string) {
	trace = ""
	defer func() {
		r += trace + "|" + classify(recover())
	}()
	r = "pre;"
	a, b := int(7), int(3); _, _ = a, b
	use(int(a % b))
	r += "post;"
	return
}

// div int8 by 0: a /= b; use(int(a))
func p187() (r string) {
	trace = ""
	defer func() {
		r += trace + "|" + classify(recover())
	}()
	r = "pre;"
	a, b := int8(7), int8(0); _, _ = a, b
	a /= b; use(int(a))
	r += "post;"
	return
}

// div int16 by 0: a %= b; use(int(a))
func p188() (r string) {
	trace = ""
	defer func() {
		r += trace + "|" + classify(recover())
	}()
	r = "pre;"
	a, b := int16(7), int16(0); _, _ = a, b
	a %= b; use(int(a))
	r += "post;"
	return
}

// div int32 by 1: use(int(int32(lg(1, 7)) / int32(lg(2, 1))))
func p189() (r string) {
	trace = ""
	defer func() {
		r += trace + "|" + classify(recover())
	}()
	r = "pre;"
	a, b := int32(7), int32(1); _, _ = a, b
	use(int(int32(lg(1, 7)) / int32(lg(2, 1))))
	r += "post;"
	return
}

// div int64 by 3: use(int(a / b))
func p190() (r string) {
	trace = ""
	defer func() {
		r += trace + "|" + classify(recover())
	}()
	r = "pre;"
	a, b := int64(7), int64(3); _, _ = a, b
	use(int(a / b))
	r += "post;"
	return
}

// div uint by 0: use(int(a % b))
func p191() (r string) {
	trace = ""
	defer func() {
		r += trace + "|" + classify(recover())
	}()
	r = "pre;"
	a, b := uint(7), uint(0); _, _ = a, b
	use(int(a % b))
	r += "post;"
	return
}

// div uint8 by 0: a /= b; use(int(a))
func p192() (r string) {
	trace = ""
	defer func() {
		r += trace + "|" + classify(recover())
	}()
	r = "pre;"
	a, b := uint8(7), uint8(0); _, _ = a, b
	a /= b; use(int(a))
	r += "post;"
	return
}

// div uint16 by 1: a %= b; use(int(a))
func p193() (r string) {
	trace = ""
	defer func() {
		r += trace + "|" + classify(recover())
	}()
	r = "pre;"
	a, b := uint16(7), uint16(1); _, _ = a, b
	a %= b; use(int(a))
	r += "post;"
	return
}

// div uint32 by 3: use(int(uint32(lg(1, 7)) / uint32(lg(2, 3))))
func p194() (r string) {
	trace = ""
	defer func() {
		r += trace + "|" + classify(recover())
	}()
	r = "pre;"
	a, b := uint32(7), uint32(3); _, _ = a, b
	use(int(uint32(lg(1, 7)) / uint32(lg(2, 3))))
	r += "post;"
	return
}

// assert use(e.(int))
func p195() (r string) {
	trace = ""
	defer func() {
		r += trace + "|" + classify(recover())
	}()
	r = "pre;"
	var e interface{} = impl{3}; var n interface{}; var i I = impl{4}; var ni I; var es interface{} = "s"; _, _, _, _, _ = e, n, i, ni, es
	use(e.(int))
	r += "post;"
	return
}

// assert use(e.(impl).x)
func p196() (r string) {
	trace = ""
	defer func() {
		r += trace + "|" + classify(recover())
	}()
	r = "pre;"
	var e interface{} = impl{3}; var n interface{}; var i I = impl{4}; var ni I; var es interface{} = "s"; _, _, _, _, _ = e, n, i, ni, es
	use(e.(impl).x)
	r += "post;"
	return
}

// assert use(e.(I).M())
func p197() (r string) {
	trace = ""
	defer func() {
		r += trace + "|" + classify(recover())
	}()
	r = "pre;"
	var e interface{} = impl{3}; var n interface{}; var i I = impl{4}; var ni I; var es interface{} = "s"; _, _, _, _, _ = e, n, i, ni, es
	use(e.(I).M())
	r += "post;"
	return
}

// assert e.(J).N()
func p198() (r string) {
	trace = ""
	defer func() {
		r += trace + "|" + classify(recover())
	}()
	r = "pre;"
	var e interface{} = impl{3}; var n interface{}; var i I = impl{4}; var ni I; var es interface{} = "s"; _, _, _, _, _ = e, n, i, ni, es
	e.(J).N()
	r += "post;"
	return
}

// assert use(n.(int))
func p199() (r string) {
	trace = ""
	defer func() {
		r += trace + "|" + classify(recover())
	}()
	r = "pre;"
	var e interface{} = impl{3}; var n interface{}; var i I = impl{4}; var ni I; var es interface{} = "s"; _, _, _, _, _ = e, n, i, ni, es
	use(n.(int))
	r += "post;"
	return
}

// assert use(n.(I).M())
func p200() (r string) {
	trace = ""
	defer func() {
		r += trace + "|" + classify(recover())
	}()
	r = "pre;"
	var e interface{} = impl{3}; var n interface{}; var i I = impl{4}; var ni I; var es interface{} = "s"; _, _, _, _, _ = e, n, i, ni, es
	use(n.(I).M())
	r += "post;"
	return
}

// assert use(i.(impl).x)
func p201() (r string) {
	trace = ""
	defer func() {
		r += trace + "|" + classify(recover())
	}()
	r = "pre;"
	var e interface{} = impl{3}; var n interface{}; var i I = impl{4}; var ni I; var es interface{} = "s"; _, _, _, _, _ = e, n, i, ni, es
	use(i.(impl).x)
	r += "post;"
	return
}

// assert i.(J).N()
func p202() (r string) {
	trace = ""
	defer func() {
		r += trace + "|" + classify(recover())
	}()
	r = "pre;"
	var e interface{} = impl{3}; var n interface{}; var i I = impl{4}; var ni I; var es interface{} = "s"; _, _, _, _, _ = e, n, i, ni, es
	i.(J).N()
	r += "post;"
	return
}

// assert use(ni.(I).M())
func p203() (r string) {
	trace = ""
	defer func() {
		r += trace + "|" + classify(recover())
	}()
	r = "pre;"
	var e interface{} = impl{3}; var n interface{}; var i I = impl{4}; var ni I; var es interface{} = "s"; _, _, _, _, _ = e, n, i, ni, es
	use(ni.(I).M())
	r += "post;"
	return
}

// assert use(ni.(impl).x)
func p204() (r string) {
	trace = ""
	defer func() {
		r += trace + "|" + classify(recover())
	}()
	r = "pre;"
	var e interface{} = impl{3}; var n interface{}; var i I = impl{4}; var ni I; var es interface{} = "s"; _, _, _, _, _ = e, n, i, ni, es
	use(ni.(impl).x)
	r += "post;"
	return
}

// assert sinkS = es.(string)
func p205() (r string) {
	trace = ""
	defer func() {
		r += trace + "|" + classify(recover())
	}()
	r = "pre;"
	var e interface{} = impl{3}; var n interface{}; var i I = impl{4}; var ni I; var es interface{} = "s"; _, _, _, _, _ = e, n, i, ni, es
	sinkS = es.(string)
	r += "post;"
	return
}

// assert use(es.(int))
func p206() (r string) {
	trace = ""
	defer func() {
		r += trace + "|" + classify(recover())
	}()
	r = "pre;"
	var e interface{} = impl{3}; var n interface{}; var i I = impl{4}; var ni I; var es interface{} = "s"; _, _, _, _, _ = e, n, i, ni, es
	use(es.(int))
	r += "post;"
	return
}

// assert v, ok := e.(int); use(v); sinkB = ok
func p207() (r string) {
	trace = ""
	defer func() {
		r += trace + "|" + classify(recover())
	}()
	r = "pre;"
	var e interface{} = impl{3}; var n interface{}; var i I = impl{4}; var ni I; var es interface{} = "s"; _, _, _, _, _ = e, n, i, ni, es
	v, ok := e.(int); use(v); sinkB = ok
	r += "post;"
	return
}

// assert v, ok := n.(I); sinkAny = v; sinkB = ok
func p208() (r string) {
	trace = ""
	defer func() {
		r += trace + "|" + classify(recover())
	}()
	r = "pre;"
	var e interface{} = impl{3}; var n interface{}; var i I = impl{4}; var ni I; var es interface{} = "s"; _, _, _, _, _ = e, n, i, ni, es
	v, ok := n.(I); sinkAny = v; sinkB = ok
	r += "post;"
	return
}

// assert use(ni.M())
func p209() (r string) {
	trace = ""
	defer func() {
		r += trace + "|" + classify(recover())
	}()
	r = "pre;"
	var e interface{} = impl{3}; var n interface{}; var i I = impl{4}; var ni I; var es interface{} = "s"; _, _, _, _, _ = e, n, i, ni, es
	use(ni.M())
	r += "post;"
	return
}

// assert sinkS = e.(interface{ String() string }).String()
func p210() (r string) {
	trace = ""
	defer func() {
		r += trace + "|" + classify(recover())
	}()
	r = "pre;"
	var e interface{} = impl{3}; var n interface{}; var i I = impl{4}; var ni I; var es interface{} = "s"; _, _, _, _, _ = e, n, i, ni, es
	sinkS = e.(interface{ String() string }).String()
	r += "post;"
	return
}

// assert use(len(e.([]int)))
func p211() (r string) {
	trace = ""
	defer func() {
		r += trace + "|" + classify(recover())
	}()
	r = "pre;"
	var e interface{} = impl{3}; var n interface{}; var i I = impl{4}; var ni I; var es interface{} = "s"; _, _, _, _, _ = e, n, i, ni, es
	use(len(e.([]int)))
	r += "post;"
	return
}

// assert use(e.(*impl).x)
func p212() (r string) {
	trace = ""
	defer func() {
		r += trace + "|" + classify(recover())
	}()
	r = "pre;"
	var e interface{} = impl{3}; var n interface{}; var i I = impl{4}; var ni I; var es interface{} = "s"; _, _, _, _, _ = e, n, i, ni, es
	use(e.(*impl).x)
	r += "post;"
	return
}

// assert use(e.(int))
func p213() (r string) {
	trace = ""
	defer func() {
		r += trace + "|" + classify(recover())
	}()
	r = "pre;"
	var e interface{} = impl{3}; var n interface{}; var i I = impl{4}; var ni I; var es interface{} = "s"; _, _, _, _, _ = e, n, i, ni, es
	use(e.(int))
	r += "post;"
	return
}

// assert use(e.(impl).x)
func p214() (r string) {
	trace = ""
	defer func() {
		r += trace + "|" + classify(recover())
	}()
	r = "pre;"
	var e interface{} = impl{3}; var n interface{}; var i I = impl{4}; var ni I; var es interface{} = "s"; _, _, _, _, _ = e, n, i, ni, es
	use(e.(impl).x)
	r += "post;"
	return
}

// assert use(e.(int))
func p215() (r string) {
	trace = ""
	defer func() {
		r += trace + "|" + classify(recover())
	}()
	r = "pre;"
	var e interface{} = impl{3}; var n interface{}; var i I = impl{4}; var ni I; var es interface{} = "s"; _, _, _, _, _ = e, n, i, ni, es
	use(e.(int))
	r += "post;"
	return
}

// assert use(e.(impl).x)
func p216() (r string) {
	trace = ""
	defer func() {
		r += trace + "|" + classify(recover())
	}()
	r = "pre;"
	var e interface{} = impl{3}; var n interface{}; var i I = impl{4}; var ni I; var es interface{} = "s"; _, _, _, _, _ = e, n, i, ni, es
	use(e.(impl).x)
	r += "post;"
	return
}

// assert use(e.(I).M())
func p217() (r string) {
	trace = ""
	defer func() {
		r += trace + "|" + classify(recover())
	}()
	r = "pre;"
	var e interface{} = impl{3}; var n interface{}; var i I = impl{4}; var ni I; var es interface{} = "s"; _, _, _, _, _ = e, n, i, ni, es
	use(e.(I).M())
	r += "post;"
	return
}

// assert e.(J).N()
func p218() (r string) {
	trace = ""
	defer func() {
		r += trace + "|" + classify(recover())
	}()
	r = "pre;"
	var e interface{} = impl{3}; var n interface{}; var i I = impl{4}; var ni I; var es interface{} = "s"; _, _, _, _, _ = e, n, i, ni, es
	e.(J).N()
	r += "post;"
	return
}

// assert use(n.(int))
func p219() (r string) {
	trace = ""
	defer func() {
		r += trace + "|" + classify(recover())
	}()
	r = "pre;"
	var e interface{} = impl{3}; var n interface{}; var i I = impl{4}; var ni I; var es interface{} = "s"; _, _, _, _, _ = e, n, i, ni, es
	use(n.(int))
	r += "post;"
	return
}

// assert use(n.(I).M())
func p220() (r string) {
	trace = ""
	defer func() {
		r += trace + "|" + classify(recover())
	}()
	r = "pre;"
	var e interface{} = impl{3}; var n interface{}; var i I = impl{4}; var ni I; var es interface{} = "s"; _, _, _, _, _ = e, n, i, ni, es
	use(n.(I).M())
	r += "post;"
	return
}

// assert use(i.(impl).x)
func p221() (r string) {
	trace = ""
	defer func() {
		r += trace + "|" + classify(recover())
	}()
	r = "pre;"
	var e interface{} = impl{3}; var n interface{}; var i I = impl{4}; var ni I; var es interface{} = "s"; _, _, _, _, _ = e, n, i, ni, es
	use(i.(impl).x)
	r += "post;"
	return
}

// assert i.(J).N()
func p222() (r string) {
	trace = ""
	defer func() {
		r += trace + "|" + classify(recover())
	}()
	r = "pre;"
	var e interface{} = impl{3}; var n interface{}; var i I = impl{4}; var ni I; var es interface{} = "s"; _, _, _, _, _ = e, n, i, ni, es
	i.(J).N()
	r += "post;"
	return
}

// assert use(ni.(I).M())
func p223() (r string) {
	trace = ""
	defer func() {
		r += trace + "|" + classify(recover())
	}()
	r = "pre;"
	var e interface{} = impl{3}; var n interface{}; var i I = impl{4}; var ni I; var es interface{} = "s"; _, _, _, _, _ = e, n, i, ni, es
	use(ni.(I).M())
	r += "post;"
	return
}

// assert use(ni.(impl).x)
func p224() (r string) {
	trace = ""
	defer func() {
		r += trace + "|" + classify(recover())
	}()
	r = "pre;"
	var e interface{} = impl{3}; var n interface{}; var i I = impl{4}; var ni I; var es interface{} = "s"; _, _, _, _, _ = e, n, i, ni, es
	use(ni.(impl).x)
	r += "post;"
	return
}

// assert sinkS = es.(string)
func p225() (r string) {
	trace = ""
	defer func() {
		r += trace + "|" + classify(recover())
	}()
	r = "pre;"
	var e interface{} = impl{3}; var n interface{}; var i I = impl{4}; var ni I; var es interface{} = "s"; _, _, _, _, _ = e, n, i, ni, es
	sinkS = es.(string)
	r += "post;"
	return
}

// assert use(es.(int))
func p226() (r string) {
	trace = ""
	defer func() {
		r += trace + "|" + classify(recover())
	}()
	r = "pre;"
	var e interface{} = impl{3}; var n interface{}; var i I = impl{4}; var ni I; var es interface{} = "s"; _, _, _, _, _ = e, n, i, ni, es
	use(es.(int))
	r += "post;"
	return
}

// assert v, ok := e.(int); use(v); sinkB = ok
func p227() (r string) {
	trace = ""
	defer func() {
		r += trace + "|" + classify(recover())
	}()
	r = "pre;"
	var e interface{} = impl{3}; var n interface{}; var i I = impl{4}; var ni I; var es interface{} = "s"; _, _, _, _, _ = e, n, i, ni, es
	v, ok := e.(int); use(v); sinkB = ok
	r += "post;"
	return
}

// assert v, ok := n.(I); sinkAny = v; sinkB = ok
func p228() (r string) {
	trace = ""
	defer func() {
		r += trace + "|" + classify(recover())
	}()
	r = "pre;"
	var e interface{} = impl{3}; var n interface{}; var i I = impl{4}; var ni I; var es interface{} = "s"; _, _, _, _, _ = e, n, i, ni, es
	v, ok := n.(I); sinkAny = v; sinkB = ok
	r += "post;"
	return
}

// assert use(ni.M())
func p229() (r string) {
	trace = ""
	defer func() {
		r += trace + "|" + classify(recover())
	}()
	r = "pre;"
	var e interface{} = impl{3}; var n interface{}; var i I = impl{4}; var ni I; var es interface{} = "s"; _, _, _, _, _ = e, n, i, ni, es
	use(ni.M())
	r += "post;"
	return
}

// assert sinkS = e.(interface{ String() string }).String()
func p230() (r string) {
	trace = ""
	defer func() {
		r += trace + "|" + classify(recover())
	}()
	r = "pre;"
	var e interface{} = impl{3}; var n interface{}; var i I = impl{4}; var ni I; var es interface{} = "s"; _, _, _, _, _ = e, n, i, ni, es
	sinkS = e.(interface{ String() string }).String()
	r += "post;"
	return
}

// assert use(len(e.([]int)))
func p231() (r string) {
	trace = ""
	defer func() {
		r += trace + "|" + classify(recover())
	}()
	r = "pre;"
	var e interface{} = impl{3}; var n interface{}; var i I = impl{4}; var ni I; var es interface{} = "s"; _, _, _, _, _ = e, n, i, ni, es
	use(len(e.([]int)))
	r += "post;"
	return
}

// assert use(e.(*impl).x)
func p232() (r string) {
	trace = ""
	defer func() {
		r += trace + "|" + classify(recover())
	}()
	r = "pre;"
	var e interface{} = impl{3}; var n interface{}; var i I = impl{4}; var ni I; var es interface{} = "s"; _, _, _, _, _ = e, n, i, ni, es
	use(e.(*impl).x)
	r += "post;"
	return
}

// assert use(e.(int))
func p233() (r string) {
	trace = ""
	defer func() {
		r += trace + "|" + classify(recover())
	}()
	r = "pre;"
	var e interface{} = impl{3}; var n interface{}; var i I = impl{4}; var ni I; var es interface{} = "s"; _, _, _, _, _ = e, n, i, ni, es
	use(e.(int))
	r += "post;"
	return
}

// assert use(e.(impl).x)
func p234() (r string) {
	trace = ""
	defer func() {
		r += trace + "|" + classify(recover())
	}()
	r = "pre;"
	var e interface{} = impl{3}; var n interface{}; var i I = impl{4}; var ni I; var es interface{} = "s"; _, _, _, _, _ = e, n, i, ni, es
	use(e.(impl).x)
	r += "post;"
	return
}

// uncomparable sinkB = a == b
func p235() (r string) {
	trace = ""
	defer func() {
		r += trace + "|" + classify(recover())
	}()
	r = "pre;"
	var a, b interface{} = []int{1}, []int{1}; var c, d interface{} = map[string]int{}, 1; var f, g interface{} = func() {}, struct{ s []int }{}; h := map[interface{}]int{}; var arr1, arr2 interface{} = [1][]int{}, [1][]int{}; _, _, _, _, _, _, _, _, _ = a, b, c, d, f, g, h, arr1, arr2
	sinkB = a == b
	r += "post;"
	return
}

// uncomparable sinkB = a != b
func p236() (r string) {
	trace = ""
	defer func() {
		r += trace + "|" + classify(recover())
	}()
	r = "pre;"
	var a, b interface{} = []int{1}, []int{1}; var c, d interface{} = map[string]int{}, 1; var f, g interface{} = func() {}, struct{ s []int }{}; h := map[interface{}]int{}; var arr1, arr2 interface{} = [1][]int{}, [1][]int{}; _, _, _, _, _, _, _, _, _ = a, b, c, d, f, g, h, arr1, arr2
	sinkB = a != b
	r += "post;"
	return
}

// uncomparable sinkB = c == d
func p237() (r string) {
	trace = ""
	defer func() {
		r += trace + "|" + classify(recover())
	}()
	r = "pre;"
	var a, b interface{} = []int{1}, []int{1}; var c, d interface{} = map[string]int{}, 1; var f, g interface{} = func() {}, struct{ s []int }{}; h := map[interface{}]int{}; var arr1, arr2 interface{} = [1][]int{}, [1][]int{}; _, _, _, _, _, _, _, _, _ = a, b, c, d, f, g, h, arr1, arr2
	sinkB = c == d
	r += "post;"
	return
}

// uncomparable sinkB = c == c
func p238() (r string) {
	trace = ""
	defer func() {
		r += trace + "|" + classify(recover())
	}()
	r = "pre;"
	var a, b interface{} = []int{1}, []int{1}; var c, d interface{} = map[string]int{}, 1; var f, g interface{} = func() {}, struct{ s []int }{}; h := map[interface{}]int{}; var arr1, arr2 interface{} = [1][]int{}, [1][]int{}; _, _, _, _, _, _, _, _, _ = a, b, c, d, f, g, h, arr1, arr2
	sinkB = c == c
	r += "post;"
	return
}

// uncomparable sinkB = f == f
func p239() (r string) {
	trace = ""
	defer func() {
		r += trace + "|" + classify(recover())
	}()
	r = "pre;"
	var a, b interface{} = []int{1}, []int{1}; var c, d interface{} = map[string]int{}, 1; var f, g interface{} = func() {}, struct{ s []int }{}; h := map[interface{}]int{}; var arr1, arr2 interface{} = [1][]int{}, [1][]int{}; _, _, _, _, _, _, _, _, _ = a, b, c, d, f, g, h, arr1, arr2
	sinkB = f == f
	r += "post;"
	return
}

// uncomparable sinkB = g == g
func p240() (r string) {
	trace = ""
	defer func() {
		r += trace + "|" + classify(recover())
	}()
	r = "pre;"
	var a, b interface{} = []int{1}, []int{1}; var c, d interface{} = map[string]int{}, 1; var f, g interface{} = func() {}, struct{ s []int }{}; h := map[interface{}]int{}; var arr1, arr2 interface{} = [1][]int{}, [1][]int{}; _, _, _, _, _, _, _, _, _ = a, b, c, d, f, g, h, arr1, arr2
	sinkB = g == g
	r += "post;"
	return
}

// uncomparable sinkB = a == d
func p241() (r string) {
	trace = ""
	defer func() {
		r += trace + "|" + classify(recover())
	}()
	r = "pre;"
	var a, b interface{} = []int{1}, []int{1}; var c, d interface{} = map[string]int{}, 1; var f, g interface{} = func() {}, struct{ s []int }{}; h := map[interface{}]int{}; var arr1, arr2 interface{} = [1][]int{}, [1][]int{}; _, _, _, _, _, _, _, _, _ = a, b, c, d, f, g, h, arr1, arr2
	sinkB = a == d
	r += "post;"
	return
}

// uncomparable h[a] = 1
func p242() (r string) {
	trace = ""
	defer func() {
		r += trace + "|" + classify(recover())
	}()
	r = "pre;"
	var a, b interface{} = []int{1}, []int{1}; var c, d interface{} = map[string]int{}, 1; var f, g interface{} = func() {}, struct{ s []int }{}; h := map[interface{}]int{}; var arr1, arr2 interface{} = [1][]int{}, [1][]int{}; _, _, _, _, _, _, _, _, _ = a, b, c, d, f, g, h, arr1, arr2
	h[a] = 1
	r += "post;"
	return
}

// uncomparable use(h[c])
func p243() (r string) {
	trace = ""
	defer func() {
		r += trace + "|" + classify(recover())
	}()
	r = "pre;"
	var a, b interface{} = []int{1}, []int{1}; var c, d interface{} = map[string]int{}, 1; var f, g interface{} = func() {}, struct{ s []int }{}; h := map[interface{}]int{}; var arr1, arr2 interface{} = [1][]int{}, [1][]int{}; _, _, _, _, _, _, _, _, _ = a, b, c, d, f, g, h, arr1, arr2
	use(h[c])
	r += "post;"
	return
}

// uncomparable delete(h, f)
func p244() (r string) {
	trace = ""
	defer func() {
		r += trace + "|" + classify(recover())
	}()
	r = "pre;"
	var a, b interface{} = []int{1}, []int{1}; var c, d interface{} = map[string]int{}, 1; var f, g interface{} = func() {}, struct{ s []int }{}; h := map[interface{}]int{}; var arr1, arr2 interface{} = [1][]int{}, [1][]int{}; _, _, _, _, _, _, _, _, _ = a, b, c, d, f, g, h, arr1, arr2
	delete(h, f)
	r += "post;"
	return
}

// uncomparable _, sinkB = h[g]
func p245() (r string) {
	trace = ""
	defer func() {
		r += trace + "|" + classify(recover())
	}()
	r = "pre;"
	var a, b interface{} = []int{1}, []int{1}; var c, d interface{} = map[string]int{}, 1; var f, g interface{} = func() {}, struct{ s []int }{}; h := map[interface{}]int{}; var arr1, arr2 interface{} = [1][]int{}, [1][]int{}; _, _, _, _, _, _, _, _, _ = a, b, c, d, f, g, h, arr1, arr2
	_, sinkB = h[g]
	r += "post;"
	return
}

// uncomparable sinkB = arr1 == arr2
func p246() (r string) {
	trace = ""
	defer func() {
		r += trace + "|" + classify(recover())
	}()
	r = "pre;"
	var a, b interface{} = []int{1}, []int{1}; var c, d interface{} = map[string]int{}, 1; var f, g interface{} = func() {}, struct{ s []int }{}; h := map[interface{}]int{}; var arr1, arr2 interface{} = [1][]int{}, [1][]int{}; _, _, _, _, _, _, _, _, _ = a, b, c, d, f, g, h, arr1, arr2
	sinkB = arr1 == arr2
	r += "post;"
	return
}

// uncomparable switch a { case b: use(1) }
func p247() (r string) {
	trace = ""
	defer func() {
		r += trace + "|" + classify(recover())
	}()
	r = "pre;"
	var a, b interface{} = []int{1}, []int{1}; var c, d interface{} = map[string]int{}, 1; var f, g interface{} = func() {}, struct{ s []int }{}; h := map[interface{}]int{}; var arr1, arr2 interface{} = [1][]int{}, [1][]int{}; _, _, _, _, _, _, _, _, _ = a, b, c, d, f, g, h, arr1, arr2
	switch a { case b: use(1) }
	r += "post;"
	return
}

// uncomparable sinkB = d == d
func p248() (r string) {
	trace = ""
	defer func() {
		r += trace + "|" + classify(recover())
	}()
	r = "pre;"
	var a, b interface{} = []int{1}, []int{1}; var c, d interface{} = map[string]int{}, 1; var f, g interface{} = func() {}, struct{ s []int }{}; h := map[interface{}]int{}; var arr1, arr2 interface{} = [1][]int{}, [1][]int{}; _, _, _, _, _, _, _, _, _ = a, b, c, d, f, g, h, arr1, arr2
	sinkB = d == d
	r += "post;"
	return
}

// uncomparable h[d] = 2; use(h[d])
func p249() (r string) {
	trace = ""
	defer func() {
		r += trace + "|" + classify(recover())
	}()
	r = "pre;"
	var a, b interface{} = []int{1}, []int{1}; var c, d interface{} = map[string]int{}, 1; var f, g interface{} = func() {}, struct{ s []int }{}; h := map[interface{}]int{}; var arr1, arr2 interface{} = [1][]int{}, [1][]int{}; _, _, _, _, _, _, _, _, _ = a, b, c, d, f, g, h, arr1, arr2
	h[d] = 2; use(h[d])
	r += "post;"
	return
}

// uncomparable sinkB = a == b
func p250() (r string) {
	trace = ""
	defer func() {
		r += trace + "|" + classify(recover())
	}()
	r = "pre;"
	var a, b interface{} = []int{1}, []int{1}; var c, d interface{} = map[string]int{}, 1; var f, g interface{} = func() {}, struct{ s []int }{}; h := map[interface{}]int{}; var arr1, arr2 interface{} = [1][]int{}, [1][]int{}; _, _, _, _, _, _, _, _, _ = a, b, c, d, f, g, h, arr1, arr2
	sinkB = a == b
	r += "post;"
	return
}

// uncomparable sinkB = a != b
func p251() (r string) {
	trace = ""
	defer func() {
		r += trace + "|" + classify(recover())
	}()
	r = "pre;"
	var a, b interface{} = []int{1}, []int{1}; var c, d interface{} = map[string]int{}, 1; var f, g interface{} = func() {}, struct{ s []int }{}; h := map[interface{}]int{}; var arr1, arr2 interface{} = [1][]int{}, [1][]int{}; _, _, _, _, _, _, _, _, _ = a, b, c, d, f, g, h, arr1, arr2
	sinkB = a != b
	r += "post;"
	return
}

// uncomparable sinkB = c == d
func p252() (r string) {
	trace = ""
	defer func() {
		r += trace + "|" + classify(recover())
	}()
	r = "pre;"
	var a, b interface{} = []int{1}, []int{1}; var c, d interface{} = map[string]int{}, 1; var f, g interface{} = func() {}, struct{ s []int }{}; h := map[interface{}]int{}; var arr1, arr2 interface{} = [1][]int{}, [1][]int{}; _, _, _, _, _, _, _, _, _ = a, b, c, d, f, g, h, arr1, arr2
	sinkB = c == d
	r += "post;"
	return
}

// uncomparable sinkB = c == c
func p253() (r string) {
	trace = ""
	defer func() {
		r += trace + "|" + classify(recover())
	}()
	r = "pre;"
	var a, b interface{} = []int{1}, []int{1}; var c, d interface{} = map[string]int{}, 1; var f, g interface{} = func() {}, struct{ s []int }{}; h := map[interface{}]int{}; var arr1, arr2 interface{} = [1][]int{}, [1][]int{}; _, _, _, _, _, _, _, _, _ = a, b, c, d, f, g, h, arr1, arr2
	sinkB = c == c
	r += "post;"
	return
}

// uncomparable sinkB = f == f
func p254() (r string) {
	trace = ""
	defer func() {
		r += trace + "|" + classify(recover())
	}()
	r = "pre;"
	var a, b interface{} = []int{1}, []int{1}; var c, d interface{} = map[string]int{}, 1; var f, g interface{} = func() {}, struct{ s []int }{}; h := map[interface{}]int{}; var arr1, arr2 interface{} = [1][]int{}, [1][]int{}; _, _, _, _, _, _, _, _, _ = a, b, c, d, f, g, h, arr1, arr2
	sinkB = f == f
	r += "post;"
	return
}

// uncomparable sinkB = a == b
func p255() (r string) {
	trace = ""
	defer func() {
		r += trace + "|" + classify(recover())
	}()
	r = "pre;"
	var a, b interface{} = []int{1}, []int{1}; var c, d interface{} = map[string]int{}, 1; var f, g interface{} = func() {}, struct{ s []int }{}; h := map[interface{}]int{}; var arr1, arr2 interface{} = [1][]int{}, [1][]int{}; _, _, _, _, _, _, _, _, _ = a, b, c, d, f, g, h, arr1, arr2
	sinkB = a == b
	r += "post;"
	return
}

// uncomparable sinkB = a != b
func p256() (r string) {
	trace = ""
	defer func() {
		r += trace + "|" + classify(recover())
	}()
	r = "pre;"
	var a, b interface{} = []int{1}, []int{1}; var c, d interface{} = map[string]int{}, 1; var f, g interface{} = func() {}, struct{ s []int }{}; h := map[interface{}]int{}; var arr1, arr2 interface{} = [1][]int{}, [1][]int{}; _, _, _, _, _, _, _, _, _ = a, b, c, d, f, g, h, arr1, arr2
	sinkB = a != b
	r += "post;"
	return
}

// uncomparable sinkB = c == d
func p257() (r string) {
	trace = ""
	defer func() {
		r += trace + "|" + classify(recover())
	}()
	r = "pre;"
	var a, b interface{} = []int{1}, []int{1}; var c, d interface{} = map[string]int{}, 1; var f, g interface{} = func() {}, struct{ s []int }{}; h := map[interface{}]int{}; var arr1, arr2 interface{} = [1][]int{}, [1][]int{}; _, _, _, _, _, _, _, _, _ = a, b, c, d, f, g, h, arr1, arr2
	sinkB = c == d
	r += "post;"
	return
}

// uncomparable sinkB = c == c
func p258() (r string) {
	trace = ""
	defer func() {
		r += trace + "|" + classify(recover())
	}()
	r = "pre;"
	var a, b interface{} = []int{1}, []int{1}; var c, d interface{} = map[string]int{}, 1; var f, g interface{} = func() {}, struct{ s []int }{}; h := map[interface{}]int{}; var arr1, arr2 interface{} = [1][]int{}, [1][]int{}; _, _, _, _, _, _, _, _, _ = a, b, c, d, f, g, h, arr1, arr2
	sinkB = c == c
	r += "post;"
	return
}

// uncomparable sinkB = f == f
func p259() (r string) {
	trace = ""
	defer func() {
		r += trace + "|" + classify(recover())
	}()
	r = "pre;"
	var a, b interface{} = []int{1}, []int{1}; var c, d interface{} = map[string]int{}, 1; var f, g interface{} = func() {}, struct{ s []int }{}; h := map[interface{}]int{}; var arr1, arr2 interface{} = [1][]int{}, [1][]int{}; _, _, _, _, _, _, _, _, _ = a, b, c, d, f, g, h, arr1, arr2
	sinkB = f == f
	r += "post;"
	return
}

// uncomparable sinkB = g == g
func p260() (r string) {
	trace = ""
	defer func() {
		r += trace + "|" + classify(recover())
	}()
	r = "pre;"
	var a, b interface{} = []int{1}, []int{1}; var c, d interface{} = map[string]int{}, 1; var f, g interface{} = func() {}, struct{ s []int }{}; h := map[interface{}]int{}; var arr1, arr2 interface{} = [1][]int{}, [1][]int{}; _, _, _, _, _, _, _, _, _ = a, b, c, d, f, g, h, arr1, arr2
	sinkB = g == g
	r += "post;"
	return
}

// uncomparable sinkB = a == d
func p261() (r string) {
	trace = ""
	defer func() {
		r += trace + "|" + classify(recover())
	}()
	r = "pre;"
	var a, b interface{} = []int{1}, []int{1}; var c, d interface{} = map[string]int{}, 1; var f, g interface{} = func() {}, struct{ s []int }{}; h := map[interface{}]int{}; var arr1, arr2 interface{} = [1][]int{}, [1][]int{}; _, _, _, _, _, _, _, _, _ = a, b, c, d, f, g, h, arr1, arr2
	sinkB = a == d
	r += "post;"
	return
}

// uncomparable h[a] = 1
func p262() (r string) {
	trace = ""
	defer func() {
		r += trace + "|" + classify(recover())
	}()
	r = "pre;"
	var a, b interface{} = []int{1}, []int{1}; var c, d interface{} = map[string]int{}, 1; var f, g interface{} = func() {}, struct{ s []int }{}; h := map[interface{}]int{}; var arr1, arr2 interface{} = [1][]int{}, [1][]int{}; _, _, _, _, _, _, _, _, _ = a, b, c, d, f, g, h, arr1, arr2
	h[a] = 1
	r += "post;"
	return
}

// uncomparable use(h[c])
func p263() (r string) {
	trace = ""
	defer func() {
		r += trace + "|" + classify(recover())
	}()
	r = "pre;"
	var a, b interface{} = []int{1}, []int{1}; var c, d interface{} = map[string]int{}, 1; var f, g interface{} = func() {}, struct{ s []int }{}; h := map[interface{}]int{}; var arr1, arr2 interface{} = [1][]int{}, [1][]int{}; _, _, _, _, _, _, _, _, _ = a, b, c, d, f, g, h, arr1, arr2
	use(h[c])
	r += "post;"
	return
}

// uncomparable delete(h, f)
func p264() (r string) {
	trace = ""
	defer func() {
		r += trace + "|" + classify(recover())
	}()
	r = "pre;"
	var a, b interface{} = []int{1}, []int{1}; var c, d interface{} = map[string]int{}, 1; var f, g interface{} = func() {}, struct{ s []int }{}; h := map[interface{}]int{}; var arr1, arr2 interface{} = [1][]int{}, [1][]int{}; _, _, _, _, _, _, _, _, _ = a, b, c, d, f, g, h, arr1, arr2
	delete(h, f)
	r += "post;"
	return
}

// uncomparable _, sinkB = h[g]
func p265() (r string) {
	trace = ""
	defer func() {
		r += trace + "|" + classify(recover())
	}()
	r = "pre;"
	var a, b interface{} = []int{1}, []int{1}; var c, d interface{} = map[string]int{}, 1; var f, g interface{} = func() {}, struct{ s []int }{}; h := map[interface{}]int{}; var arr1, arr2 interface{} = [1][]int{}, [1][]int{}; _, _, _, _, _, _, _, _, _ = a, b, c, d, f, g, h, arr1, arr2
	_, sinkB = h[g]
	r += "post;"
	return
}

// uncomparable sinkB = arr1 == arr2
func p266() (r string) {
	trace = ""
	defer func() {
		r += trace + "|" + classify(recover())
	}()
	r = "pre;"
	var a, b interface{} = []int{1}, []int{1}; var c, d interface{} = map[string]int{}, 1; var f, g interface{} = func() {}, struct{ s []int }{}; h := map[interface{}]int{}; var arr1, arr2 interface{} = [1][]int{}, [1][]int{}; _, _, _, _, _, _, _, _, _ = a, b, c, d, f, g, h, arr1, arr2
	sinkB = arr1 == arr2
	r += "post;"
	return
}

// uncomparable switch a { case b: use(1) }
func p267() (r string) {
	trace = ""
	defer func() {
		r += trace + "|" + classify(recover())
	}()
	r = "pre;"
	var a, b interface{} = []int{1}, []int{1}; var c, d interface{} = map[string]int{}, 1; var f, g interface{} = func() {}, struct{ s []int }{}; h := map[interface{}]int{}; var arr1, arr2 interface{} = [1][]int{}, [1][]int{}; _, _, _, _, _, _, _, _, _ = a, b, c, d, f, g, h, arr1, arr2
	switch a { case b: use(1) }
	r += "post;"
	return
}

// uncomparable sinkB = d == d
func p268() (r string) {
	trace = ""
	defer func() {
		r += trace + "|" + classify(recover())
	}()
	r = "pre;"
	var a, b interface{} = []int{1}, []int{1}; var c, d interface{} = map[string]int{}, 1; var f, g interface{} = func() {}, struct{ s []int }{}; h := map[interface{}]int{}; var arr1, arr2 interface{} = [1][]int{}, [1][]int{}; _, _, _, _, _, _, _, _, _ = a, b, c, d, f, g, h, arr1, arr2
	sinkB = d == d
	r += "post;"
	return
}

// uncomparable h[d] = 2; use(h[d])
func p269() (r string) {
	trace = ""
	defer func() {
		r += trace + "|" + classify(recover())
	}()
	r = "pre;"
	var a, b interface{} = []int{1}, []int{1}; var c, d interface{} = map[string]int{}, 1; var f, g interface{} = func() {}, struct{ s []int }{}; h := map[interface{}]int{}; var arr1, arr2 interface{} = [1][]int{}, [1][]int{}; _, _, _, _, _, _, _, _, _ = a, b, c, d, f, g, h, arr1, arr2
	h[d] = 2; use(h[d])
	r += "post;"
	return
}

// uncomparable sinkB = a == b
func p270() (r string) {
	trace = ""
	defer func() {
		r += trace + "|" + classify(recover())
	}()
	r = "pre;"
	var a, b interface{} = []int{1}, []int{1}; var c, d interface{} = map[string]int{}, 1; var f, g interface{} = func() {}, struct{ s []int }{}; h := map[interface{}]int{}; var arr1, arr2 interface{} = [1][]int{}, [1][]int{}; _, _, _, _, _, _, _, _, _ = a, b, c, d, f, g, h, arr1, arr2
	sinkB = a == b
	r += "post;"
	return
}

// uncomparable sinkB = a != b
func p271() (r string) {
	trace = ""
	defer func() {
		r += trace + "|" + classify(recover())
	}()
	r = "pre;"
	var a, b interface{} = []int{1}, []int{1}; var c, d interface{} = map[string]int{}, 1; var f, g interface{} = func() {}, struct{ s []int }{}; h := map[interface{}]int{}; var arr1, arr2 interface{} = [1][]int{}, [1][]int{}; _, _, _, _, _, _, _, _, _ = a, b, c, d, f, g, h, arr1, arr2
	sinkB = a != b
	r += "post;"
	return
}

// uncomparable sinkB = c == d
func p272() (r string) {
	trace = ""
	defer func() {
		r += trace + "|" + classify(recover())
	}()
	r = "pre;"
	var a, b interface{} = []int{1}, []int{1}; var c, d interface{} = map[string]int{}, 1; var f, g interface{} = func() {}, struct{ s []int }{}; h := map[interface{}]int{}; var arr1, arr2 interface{} = [1][]int{}, [1][]int{}; _, _, _, _, _, _, _, _, _ = a, b, c, d, f, g, h, arr1, arr2
	sinkB = c == d
	r += "post;"
	return
}

// uncomparable sinkB = c == c
func p273() (r string) {
	trace = ""
	defer func() {
		r += trace + "|" + classify(recover())
	}()
	r = "pre;"
	var a, b interface{} = []int{1}, []int{1}; var c, d interface{} = map[string]int{}, 1; var f, g interface{} = func() {}, struct{ s []int }{}; h := map[interface{}]int{}; var arr1, arr2 interface{} = [1][]int{}, [1][]int{}; _, _, _, _, _, _, _, _, _ = a, b, c, d, f, g, h, arr1, arr2
	sinkB = c == c
	r += "post;"
	return
}

// uncomparable sinkB = f == f
func p274() (r string) {
	trace = ""
	defer func() {
		r += trace + "|" + classify(recover())
	}()
	r = "pre;"
	var a, b interface{} = []int{1}, []int{1}; var c, d interface{} = map[string]int{}, 1; var f, g interface{} = func() {}, struct{ s []int }{}; h := map[interface{}]int{}; var arr1, arr2 interface{} = [1][]int{}, [1][]int{}; _, _, _, _, _, _, _, _, _ = a, b, c, d, f, g, h, arr1, arr2
	sinkB = f == f
	r += "post;"
	return
}

// make n=int(-1): use(len(make([]int, n)))
func p275() (r string) {
	trace = ""
	defer func() {
		r += trace + "|" + classify(recover())
	}()
	r = "pre;"
	n := int(-1); c := 1; _, _ = n, c
	use(len(make([]int, n)))
	r += "post;"
	return
}

// make n=int64(-1): use(cap(make([]int, 0, n)))
func p276() (r string) {
	trace = ""
	defer func() {
		r += trace + "|" + classify(recover())
	}()
	r = "pre;"
	n := int64(-1); c := 1; _, _ = n, c
	use(cap(make([]int, 0, n)))
	r += "post;"
	return
}

// make n=uint64(3): use(len(make([]int, 2, c)))
func p277() (r string) {
	trace = ""
	defer func() {
		r += trace + "|" + classify(recover())
	}()
	r = "pre;"
	n := uint64(3); c := 1; _, _ = n, c
	use(len(make([]int, 2, c)))
	r += "post;"
	return
}

// make n=int8(-5): use(cap(make(chan int, n)))
func p278() (r string) {
	trace = ""
	defer func() {
		r += trace + "|" + classify(recover())
	}()
	r = "pre;"
	n := int8(-5); c := 1; _, _ = n, c
	use(cap(make(chan int, n)))
	r += "post;"
	return
}

// make n=int(-1): use(len(make([]byte, n, n)))
func p279() (r string) {
	trace = ""
	defer func() {
		r += trace + "|" + classify(recover())
	}()
	r = "pre;"
	n := int(-1); c := 1; _, _ = n, c
	use(len(make([]byte, n, n)))
	r += "post;"
	return
}

// make n=int64(4611686018427387904): use(len(make([]int, n)))
func p280() (r string) {
	trace = ""
	defer func() {
		r += trace + "|" + classify(recover())
	}()
	r = "pre;"
	n := int64(4611686018427387904); c := 1; _, _ = n, c
	use(len(make([]int, n)))
	r += "post;"
	return
}

// make n=uint64(9223372036854775807): use(cap(make([]int, 0, n)))
func p281() (r string) {
	trace = ""
	defer func() {
		r += trace + "|" + classify(recover())
	}()
	r = "pre;"
	n := uint64(9223372036854775807); c := 1; _, _ = n, c
	use(cap(make([]int, 0, n)))
	r += "post;"
	return
}

// make n=int8(-5): use(len(make([]int, 2, c)))
func p282() (r string) {
	trace = ""
	defer func() {
		r += trace + "|" + classify(recover())
	}()
	r = "pre;"
	n := int8(-5); c := 1; _, _ = n, c
	use(len(make([]int, 2, c)))
	r += "post;"
	return
}

// make n=int(-1): use(cap(make(chan int, n)))
func p283() (r string) {
	trace = ""
	defer func() {
		r += trace + "|" + classify(recover())
	}()
	r = "pre;"
	n := int(-1); c := 1; _, _ = n, c
	use(cap(make(chan int, n)))
	r += "post;"
	return
}

// make n=int64(1152921504606846976): use(len(make([]byte, n, n)))
func p284() (r string) {
	trace = ""
	defer func() {
		r += trace + "|" + classify(recover())
	}()
	r = "pre;"
	n := int64(1152921504606846976); c := 1; _, _ = n, c
	use(len(make([]byte, n, n)))
	r += "post;"
	return
}

// make n=uint64(18446744073709551615): use(len(make([]int, n)))
func p285() (r string) {
	trace = ""
	defer func() {
		r += trace + "|" + classify(recover())
	}()
	r = "pre;"
	n := uint64(18446744073709551615); c := 1; _, _ = n, c
	use(len(make([]int, n)))
	r += "post;"
	return
}

// make n=int8(-5): use(cap(make([]int, 0, n)))
func p286() (r string) {
	trace = ""
	defer func() {
		r += trace + "|" + classify(recover())
	}()
	r = "pre;"
	n := int8(-5); c := 1; _, _ = n, c
	use(cap(make([]int, 0, n)))
	r += "post;"
	return
}

// make n=int(-1): use(len(make([]int, 2, c)))
func p287() (r string) {
	trace = ""
	defer func() {
		r += trace + "|" + classify(recover())
	}()
	r = "pre;"
	n := int(-1); c := 1; _, _ = n, c
	use(len(make([]int, 2, c)))
	r += "post;"
	return
}

// make n=int64(3): use(cap(make(chan int, n)))
func p288() (r string) {
	trace = ""
	defer func() {
		r += trace + "|" + classify(recover())
	}()
	r = "pre;"
	n := int64(3); c := 1; _, _ = n, c
	use(cap(make(chan int, n)))
	r += "post;"
	return
}

// make n=uint64(4611686018427387904): use(len(make([]byte, n, n)))
func p289() (r string) {
	trace = ""
	defer func() {
		r += trace + "|" + classify(recover())
	}()
	r = "pre;"
	n := uint64(4611686018427387904); c := 1; _, _ = n, c
	use(len(make([]byte, n, n)))
	r += "post;"
	return
}

// make n=int8(-5): use(len(make([]int, n)))
func p290() (r string) {
	trace = ""
	defer func() {
		r += trace + "|" + classify(recover())
	}()
	r = "pre;"
	n := int8(-5); c := 1; _, _ = n, c
	use(len(make([]int, n)))
	r += "post;"
	return
}

// make n=int(-1): use(cap(make([]int, 0, n)))
func p291() (r string) {
	trace = ""
	defer func() {
		r += trace + "|" + classify(recover())
	}()
	r = "pre;"
	n := int(-1); c := 1; _, _ = n, c
	use(cap(make([]int, 0, n)))
	r += "post;"
	return
}

// make n=int64(9223372036854775807): use(len(make([]int, 2, c)))
func p292() (r string) {
	trace = ""
	defer func() {
		r += trace + "|" + classify(recover())
	}()
	r = "pre;"
	n := int64(9223372036854775807); c := 1; _, _ = n, c
	use(len(make([]int, 2, c)))
	r += "post;"
	return
}

// make n=uint64(1152921504606846976): use(cap(make(chan int, n)))
func p293() (r string) {
	trace = ""
	defer func() {
		r += trace + "|" + classify(recover())
	}()
	r = "pre;"
	n := uint64(1152921504606846976); c := 1; _, _ = n, c
	use(cap(make(chan int, n)))
	r += "post;"
	return
}

// make n=int8(-5): use(len(make([]byte, n, n)))
func p294() (r string) {
	trace = ""
	defer func() {
		r += trace + "|" + classify(recover())
	}()
	r = "pre;"
	n := int8(-5); c := 1; _, _ = n, c
	use(len(make([]byte, n, n)))
	r += "post;"
	return
}

// make n=int(-1): use(len(make([]int, n)))
func p295() (r string) {
	trace = ""
	defer func() {
		r += trace + "|" + classify(recover())
	}()
	r = "pre;"
	n := int(-1); c := 1; _, _ = n, c
	use(len(make([]int, n)))
	r += "post;"
	return
}

// make n=int64(-1): use(cap(make([]int, 0, n)))
func p296() (r string) {
	trace = ""
	defer func() {
		r += trace + "|" + classify(recover())
	}()
	r = "pre;"
	n := int64(-1); c := 1; _, _ = n, c
	use(cap(make([]int, 0, n)))
	r += "post;"
	return
}

// make n=uint64(3): use(len(make([]int, 2, c)))
func p297() (r string) {
	trace = ""
	defer func() {
		r += trace + "|" + classify(recover())
	}()
	r = "pre;"
	n := uint64(3); c := 1; _, _ = n, c
	use(len(make([]int, 2, c)))
	r += "post;"
	return
}

// make n=int8(-5): use(cap(make(chan int, n)))
func p298() (r string) {
	trace = ""
	defer func() {
		r += trace + "|" + classify(recover())
	}()
	r = "pre;"
	n := int8(-5); c := 1; _, _ = n, c
	use(cap(make(chan int, n)))
	r += "post;"
	return
}

// make n=int(-1): use(len(make([]byte, n, n)))
func p299() (r string) {
	trace = ""
	defer func() {
		r += trace + "|" + classify(recover())
	}()
	r = "pre;"
	n := int(-1); c := 1; _, _ = n, c
	use(len(make([]byte, n, n)))
	r += "post;"
	return
}

// make n=int64(4611686018427387904): use(len(make([]int, n)))
func p300() (r string) {
	trace = ""
	defer func() {
		r += trace + "|" + classify(recover())
	}()
	r = "pre;"
	n := int64(4611686018427387904); c := 1; _, _ = n, c
	use(len(make([]int, n)))
	r += "post;"
	return
}

// make n=uint64(9223372036854775807): use(cap(make([]int, 0, n)))
func p301() (r string) {
	trace = ""
	defer func() {
		r += trace + "|" + classify(recover())
	}()
	r = "pre;"
	n := uint64(9223372036854775807); c := 1; _, _ = n, c
	use(cap(make([]int, 0, n)))
	r += "post;"
	return
}

// make n=int8(-5): use(len(make([]int, 2, c)))
func p302() (r string) {
	trace = ""
	defer func() {
		r += trace + "|" + classify(recover())
	}()
	r = "pre;"
	n := int8(-5); c := 1; _, _ = n, c
	use(len(make([]int, 2, c)))
	r += "post;"
	return
}

// make n=int(-1): use(cap(make(chan int, n)))
func p303() (r string) {
	trace = ""
	defer func() {
		r += trace + "|" + classify(recover())
	}()
	r = "pre;"
	n := int(-1); c := 1; _, _ = n, c
	use(cap(make(chan int, n)))
	r += "post;"
	return
}

// make n=int64(1152921504606846976): use(len(make([]byte, n, n)))
func p304() (r string) {
	trace = ""
	defer func() {
		r += trace + "|" + classify(recover())
	}()
	r = "pre;"
	n := int64(1152921504606846976); c := 1; _, _ = n, c
	use(len(make([]byte, n, n)))
	r += "post;"
	return
}

// make n=uint64(18446744073709551615): use(len(make([]int, n)))
func p305() (r string) {
	trace = ""
	defer func() {
		r += trace + "|" + classify(recover())
	}()
	r = "pre;"
	n := uint64(18446744073709551615); c := 1; _, _ = n, c
	use(len(make([]int, n)))
	r += "post;"
	return
}

// make n=int8(-5): use(cap(make([]int, 0, n)))
func p306() (r string) {
	trace = ""
	defer func() {
		r += trace + "|" + classify(recover())
	}()
	r = "pre;"
	n := int8(-5); c := 1; _, _ = n, c
	use(cap(make([]int, 0, n)))
	r += "post;"
	return
}

// make n=int(-1): use(len(make([]int, 2, c)))
func p307() (r string) {
	trace = ""
	defer func() {
		r += trace + "|" + classify(recover())
	}()
	r = "pre;"
	n := int(-1); c := 1; _, _ = n, c
	use(len(make([]int, 2, c)))
	r += "post;"
	return
}

// make n=int64(3): use(cap(make(chan int, n)))
func p308() (r string) {
	trace = ""
	defer func() {
		r += trace + "|" + classify(recover())
	}()
	r = "pre;"
	n := int64(3); c := 1; _, _ = n, c
	use(cap(make(chan int, n)))
	r += "post;"
	return
}

// make n=uint64(4611686018427387904): use(len(make([]byte, n, n)))
func p309() (r string) {
	trace = ""
	defer func() {
		r += trace + "|" + classify(recover())
	}()
	r = "pre;"
	n := uint64(4611686018427387904); c := 1; _, _ = n, c
	use(len(make([]byte, n, n)))
	r += "post;"
	return
}

// make n=int8(-5): use(len(make([]int, n)))
func p310() (r string) {
	trace = ""
	defer func() {
		r += trace + "|" + classify(recover())
	}()
	r = "pre;"
	n := int8(-5); c := 1; _, _ = n, c
	use(len(make([]int, n)))
	r += "post;"
	return
}

// make n=int(-1): use(cap(make([]int, 0, n)))
func p311() (r string) {
	trace = ""
	defer func() {
		r += trace + "|" + classify(recover())
	}()
	r = "pre;"
	n := int(-1); c := 1; _, _ = n, c
	use(cap(make([]int, 0, n)))
	r += "post;"
	return
}

// make n=int64(9223372036854775807): use(len(make([]int, 2, c)))
func p312() (r string) {
	trace = ""
	defer func() {
		r += trace + "|" + classify(recover())
	}()
	r = "pre;"
	n := int64(9223372036854775807); c := 1; _, _ = n, c
	use(len(make([]int, 2, c)))
	r += "post;"
	return
}

// make n=uint64(1152921504606846976): use(cap(make(chan int, n)))
func p313() (r string) {
	trace = ""
	defer func() {
		r += trace + "|" + classify(recover())
	}()
	r = "pre;"
	n := uint64(1152921504606846976); c := 1; _, _ = n, c
	use(cap(make(chan int, n)))
	r += "post;"
	return
}

// make n=int8(-5): use(len(make([]byte, n, n)))
func p314() (r string) {
	trace = ""
	defer func() {
		r += trace + "|" + classify(recover())
	}()
	r = "pre;"
	n := int8(-5); c := 1; _, _ = n, c
	use(len(make([]byte, n, n)))
	r += "post;"
	return
}

// slice-to-array a := [3]int(s); use(a[2])
func p315() (r string) {
	trace = ""
	defer func() {
		r += trace + "|" + classify(recover())
	}()
	r = "pre;"
	s := []int{1, 2, 3}; var ns []int; e := []int{}; _, _, _ = s, ns, e
	a := [3]int(s); use(a[2])
	r += "post;"
	return
}

// slice-to-array a := [4]int(s); use(a[0])
func p316() (r string) {
	trace = ""
	defer func() {
		r += trace + "|" + classify(recover())
	}()
	r = "pre;"
	s := []int{1, 2, 3}; var ns []int; e := []int{}; _, _, _ = s, ns, e
	a := [4]int(s); use(a[0])
	r += "post;"
	return
}

// slice-to-array a := [2]int(s); use(a[1])
func p317() (r string) {
	trace = ""
	defer func() {
		r += trace + "|" + classify(recover())
	}()
	r = "pre;"
	s := []int{1, 2, 3}; var ns []int; e := []int{}; _, _, _ = s, ns, e
	a := [2]int(s); use(a[1])
	r += "post;"
	return
}

// slice-to-array p := (*[4]int)(s); use(p[0])
func p318() (r string) {
	trace = ""
	defer func() {
		r += trace + "|" + classify(recover())
	}()
	r = "pre;"
	s := []int{1, 2, 3}; var ns []int; e := []int{}; _, _, _ = s, ns, e
	p := (*[4]int)(s); use(p[0])
	r += "post;"
	return
}

// slice-to-array p := (*[3]int)(s); p[0] = 9; use(s[0])
func p319() (r string) {
	trace = ""
	defer func() {
		r += trace + "|" + classify(recover())
	}()
	r = "pre;"
	s := []int{1, 2, 3}; var ns []int; e := []int{}; _, _, _ = s, ns, e
	p := (*[3]int)(s); p[0] = 9; use(s[0])
	r += "post;"
	return
}

// slice-to-array p := (*[0]int)(ns); sinkB = p == nil
func p320() (r string) {
	trace = ""
	defer func() {
		r += trace + "|" + classify(recover())
	}()
	r = "pre;"
	s := []int{1, 2, 3}; var ns []int; e := []int{}; _, _, _ = s, ns, e
	p := (*[0]int)(ns); sinkB = p == nil
	r += "post;"
	return
}

// slice-to-array p := (*[0]int)(e); sinkB = p == nil
func p321() (r string) {
	trace = ""
	defer func() {
		r += trace + "|" + classify(recover())
	}()
	r = "pre;"
	s := []int{1, 2, 3}; var ns []int; e := []int{}; _, _, _ = s, ns, e
	p := (*[0]int)(e); sinkB = p == nil
	r += "post;"
	return
}

// slice-to-array a := [0]int(ns); use(len(a))
func p322() (r string) {
	trace = ""
	defer func() {
		r += trace + "|" + classify(recover())
	}()
	r = "pre;"
	s := []int{1, 2, 3}; var ns []int; e := []int{}; _, _, _ = s, ns, e
	a := [0]int(ns); use(len(a))
	r += "post;"
	return
}

// slice-to-array p := (*[1]int)(ns); use(p[0])
func p323() (r string) {
	trace = ""
	defer func() {
		r += trace + "|" + classify(recover())
	}()
	r = "pre;"
	s := []int{1, 2, 3}; var ns []int; e := []int{}; _, _, _ = s, ns, e
	p := (*[1]int)(ns); use(p[0])
	r += "post;"
	return
}

// slice-to-array a := [1]int(s[3:]); use(a[0])
func p324() (r string) {
	trace = ""
	defer func() {
		r += trace + "|" + classify(recover())
	}()
	r = "pre;"
	s := []int{1, 2, 3}; var ns []int; e := []int{}; _, _, _ = s, ns, e
	a := [1]int(s[3:]); use(a[0])
	r += "post;"
	return
}

// slice-to-array a := [3]int(s); use(a[2])
func p325() (r string) {
	trace = ""
	defer func() {
		r += trace + "|" + classify(recover())
	}()
	r = "pre;"
	s := []int{1, 2, 3}; var ns []int; e := []int{}; _, _, _ = s, ns, e
	a := [3]int(s); use(a[2])
	r += "post;"
	return
}

// slice-to-array a := [4]int(s); use(a[0])
func p326() (r string) {
	trace = ""
	defer func() {
		r += trace + "|" + classify(recover())
	}()
	r = "pre;"
	s := []int{1, 2, 3}; var ns []int; e := []int{}; _, _, _ = s, ns, e
	a := [4]int(s); use(a[0])
	r += "post;"
	return
}

// slice-to-array a := [2]int(s); use(a[1])
func p327() (r string) {
	trace = ""
	defer func() {
		r += trace + "|" + classify(recover())
	}()
	r = "pre;"
	s := []int{1, 2, 3}; var ns []int; e := []int{}; _, _, _ = s, ns, e
	a := [2]int(s); use(a[1])
	r += "post;"
	return
}

// slice-to-array p := (*[4]int)(s); use(p[0])
func p328() (r string) {
	trace = ""
	defer func() {
		r += trace + "|" + classify(recover())
	}()
	r = "pre;"
	s := []int{1, 2, 3}; var ns []int; e := []int{}; _, _, _ = s, ns, e
	p := (*[4]int)(s); use(p[0])
	r += "post;"
	return
}

// slice-to-array p := (*[3]int)(s); p[0] = 9; use(s[0])
func p329() (r string) {
	trace = ""
	defer func() {
		r += trace + "|" + classify(recover())
	}()
	r = "pre;"
	s := []int{1, 2, 3}; var ns []int; e := []int{}; _, _, _ = s, ns, e
	p := (*[3]int)(s); p[0] = 9; use(s[0])
	r += "post;"
	return
}

// slice-to-array p := (*[0]int)(ns); sinkB = p == nil
func p330() (r string) {
	trace = ""
	defer func() {
		r += trace + "|" + classify(recover())
	}()
	r = "pre;"
	s := []int{1, 2, 3}; var ns []int; e := []int{}; _, _, _ = s, ns, e
	p := (*[0]int)(ns); sinkB = p == nil
	r += "post;"
	return
}

// slice-to-array p := (*[0]int)(e); sinkB = p == nil
func p331() (r string) {
	trace = ""
	defer func() {
		r += trace + "|" + classify(recover())
	}()
	r = "pre;"
	s := []int{1, 2, 3}; var ns []int; e := []int{}; _, _, _ = s, ns, e
	p := (*[0]int)(e); sinkB = p == nil
	r += "post;"
	return
}

// slice-to-array a := [0]int(ns); use(len(a))
func p332() (r string) {
	trace = ""
	defer func() {
		r += trace + "|" + classify(recover())
	}()
	r = "pre;"
	s := []int{1, 2, 3}; var ns []int; e := []int{}; _, _, _ = s, ns, e
	a := [0]int(ns); use(len(a))
	r += "post;"
	return
}

// slice-to-array p := (*[1]int)(ns); use(p[0])
func p333() (r string) {
	trace = ""
	defer func() {
		r += trace + "|" + classify(recover())
	}()
	r = "pre;"
	s := []int{1, 2, 3}; var ns []int; e := []int{}; _, _, _ = s, ns, e
	p := (*[1]int)(ns); use(p[0])
	r += "post;"
	return
}

// slice-to-array a := [1]int(s[3:]); use(a[0])
func p334() (r string) {
	trace = ""
	defer func() {
		r += trace + "|" + classify(recover())
	}()
	r = "pre;"
	s := []int{1, 2, 3}; var ns []int; e := []int{}; _, _, _ = s, ns, e
	a := [1]int(s[3:]); use(a[0])
	r += "post;"
	return
}

// chan close(nc)
func p335() (r string) {
	trace = ""
	defer func() {
		r += trace + "|" + classify(recover())
	}()
	r = "pre;"
	var nc chan int; c := make(chan int, 1); cl := make(chan int, 1); close(cl); _, _, _ = nc, c, cl
	close(nc)
	r += "post;"
	return
}

// chan close(cl)
func p336() (r string) {
	trace = ""
	defer func() {
		r += trace + "|" + classify(recover())
	}()
	r = "pre;"
	var nc chan int; c := make(chan int, 1); cl := make(chan int, 1); close(cl); _, _, _ = nc, c, cl
	close(cl)
	r += "post;"
	return
}

// chan cl <- lg(1, 1)
func p337() (r string) {
	trace = ""
	defer func() {
		r += trace + "|" + classify(recover())
	}()
	r = "pre;"
	var nc chan int; c := make(chan int, 1); cl := make(chan int, 1); close(cl); _, _, _ = nc, c, cl
	cl <- lg(1, 1)
	r += "post;"
	return
}

// chan close(c); close(c)
func p338() (r string) {
	trace = ""
	defer func() {
		r += trace + "|" + classify(recover())
	}()
	r = "pre;"
	var nc chan int; c := make(chan int, 1); cl := make(chan int, 1); close(cl); _, _, _ = nc, c, cl
	close(c); close(c)
	r += "post;"
	return
}

// chan c <- 1; close(c); use(<-c); use(<-c)
func p339() (r string) {
	trace = ""
	defer func() {
		r += trace + "|" + classify(recover())
	}()
	r = "pre;"
	var nc chan int; c := make(chan int, 1); cl := make(chan int, 1); close(cl); _, _, _ = nc, c, cl
	c <- 1; close(c); use(<-c); use(<-c)
	r += "post;"
	return
}

// chan v, ok := <-cl; use(v); sinkB = ok
func p340() (r string) {
	trace = ""
	defer func() {
		r += trace + "|" + classify(recover())
	}()
	r = "pre;"
	var nc chan int; c := make(chan int, 1); cl := make(chan int, 1); close(cl); _, _, _ = nc, c, cl
	v, ok := <-cl; use(v); sinkB = ok
	r += "post;"
	return
}

// chan select { case cl <- 1: use(1) }
func p341() (r string) {
	trace = ""
	defer func() {
		r += trace + "|" + classify(recover())
	}()
	r = "pre;"
	var nc chan int; c := make(chan int, 1); cl := make(chan int, 1); close(cl); _, _, _ = nc, c, cl
	select { case cl <- 1: use(1) }
	r += "post;"
	return
}

// chan select { case cl <- 1: use(1); default: use(2) }
func p342() (r string) {
	trace = ""
	defer func() {
		r += trace + "|" + classify(recover())
	}()
	r = "pre;"
	var nc chan int; c := make(chan int, 1); cl := make(chan int, 1); close(cl); _, _, _ = nc, c, cl
	select { case cl <- 1: use(1); default: use(2) }
	r += "post;"
	return
}

// chan close(c); select { case c <- 1: default: }
func p343() (r string) {
	trace = ""
	defer func() {
		r += trace + "|" + classify(recover())
	}()
	r = "pre;"
	var nc chan int; c := make(chan int, 1); cl := make(chan int, 1); close(cl); _, _, _ = nc, c, cl
	close(c); select { case c <- 1: default: }
	r += "post;"
	return
}

// chan select { case v := <-nc: use(v); default: use(3) }
func p344() (r string) {
	trace = ""
	defer func() {
		r += trace + "|" + classify(recover())
	}()
	r = "pre;"
	var nc chan int; c := make(chan int, 1); cl := make(chan int, 1); close(cl); _, _, _ = nc, c, cl
	select { case v := <-nc: use(v); default: use(3) }
	r += "post;"
	return
}

// chan use(len(nc) + cap(nc))
func p345() (r string) {
	trace = ""
	defer func() {
		r += trace + "|" + classify(recover())
	}()
	r = "pre;"
	var nc chan int; c := make(chan int, 1); cl := make(chan int, 1); close(cl); _, _, _ = nc, c, cl
	use(len(nc) + cap(nc))
	r += "post;"
	return
}

// chan for v := range cl { use(v) }
func p346() (r string) {
	trace = ""
	defer func() {
		r += trace + "|" + classify(recover())
	}()
	r = "pre;"
	var nc chan int; c := make(chan int, 1); cl := make(chan int, 1); close(cl); _, _, _ = nc, c, cl
	for v := range cl { use(v) }
	r += "post;"
	return
}

// chan close(nc)
func p347() (r string) {
	trace = ""
	defer func() {
		r += trace + "|" + classify(recover())
	}()
	r = "pre;"
	var nc chan int; c := make(chan int, 1); cl := make(chan int, 1); close(cl); _, _, _ = nc, c, cl
	close(nc)
	r += "post;"
	return
}

// chan close(cl)
func p348() (r string) {
	trace = ""
	defer func() {
		r += trace + "|" + classify(recover())
	}()
	r = "pre;"
	var nc chan int; c := make(chan int, 1); cl := make(chan int, 1); close(cl); _, _, _ = nc, c, cl
	close(cl)
	r += "post;"
	return
}

// chan cl <- lg(1, 1)
func p349() (r string) {
	trace = ""
	defer func() {
		r += trace + "|" + classify(recover())
	}()
	r = "pre;"
	var nc chan int; c := make(chan int, 1); cl := make(chan int, 1); close(cl); _, _, _ = nc, c, cl
	cl <- lg(1, 1)
	r += "post;"
	return
}

// chan close(c); close(c)
func p350() (r string) {
	trace = ""
	defer func() {
		r += trace + "|" + classify(recover())
	}()
	r = "pre;"
	var nc chan int; c := make(chan int, 1); cl := make(chan int, 1); close(cl); _, _, _ = nc, c, cl
	close(c); close(c)
	r += "post;"
	return
}

// chan c <- 1; close(c); use(<-c); use(<-c)
func p351() (r string) {
	trace = ""
	defer func() {
		r += trace + "|" + classify(recover())
	}()
	r = "pre;"
	var nc chan int; c := make(chan int, 1); cl := make(chan int, 1); close(cl); _, _, _ = nc, c, cl
	c <- 1; close(c); use(<-c); use(<-c)
	r += "post;"
	return
}

// chan v, ok := <-cl; use(v); sinkB = ok
func p352() (r string) {
	trace = ""
	defer func() {
		r += trace + "|" + classify(recover())
	}()
	r = "pre;"
	var nc chan int; c := make(chan int, 1); cl := make(chan int, 1); close(cl); _, _, _ = nc, c, cl
	v, ok := <-cl; use(v); sinkB = ok
	r += "post;"
	return
}

// chan select { case cl <- 1: use(1) }
func p353() (r string) {
	trace = ""
	defer func() {
		r += trace + "|" + classify(recover())
	}()
	r = "pre;"
	var nc chan int; c := make(chan int, 1); cl := make(chan int, 1); close(cl); _, _, _ = nc, c, cl
	select { case cl <- 1: use(1) }
	r += "post;"
	return
}

// chan select { case cl <- 1: use(1); default: use(2) }
func p354() (r string) {
	trace = ""
	defer func() {
		r += trace + "|" + classify(recover())
	}()
	r = "pre;"
	var nc chan int; c := make(chan int, 1); cl := make(chan int, 1); close(cl); _, _, _ = nc, c, cl
	select { case cl <- 1: use(1); default: use(2) }
	r += "post;"
	return
}

// chan close(nc)
func p355() (r string) {
	trace = ""
	defer func() {
		r += trace + "|" + classify(recover())
	}()
	r = "pre;"
	var nc chan int; c := make(chan int, 1); cl := make(chan int, 1); close(cl); _, _, _ = nc, c, cl
	close(nc)
	r += "post;"
	return
}

// chan close(cl)
func p356() (r string) {
	trace = ""
	defer func() {
		r += trace + "|" + classify(recover())
	}()
	r = "pre;"
	var nc chan int; c := make(chan int, 1); cl := make(chan int, 1); close(cl); _, _, _ = nc, c, cl
	close(cl)
	r += "post;"
	return
}

// chan cl <- lg(1, 1)
func p357() (r string) {
	trace = ""
	defer func() {
		r += trace + "|" + classify(recover())
	}()
	r = "pre;"
	var nc chan int; c := make(chan int, 1); cl := make(chan int, 1); close(cl); _, _, _ = nc, c, cl
	cl <- lg(1, 1)
	r += "post;"
	return
}

// chan close(c); close(c)
func p358() (r string) {
	trace = ""
	defer func() {
		r += trace + "|" + classify(recover())
	}()
	r = "pre;"
	var nc chan int; c := make(chan int, 1); cl := make(chan int, 1); close(cl); _, _, _ = nc, c, cl
	close(c); close(c)
	r += "post;"
	return
}

// chan c <- 1; close(c); use(<-c); use(<-c)
func p359() (r string) {
	trace = ""
	defer func() {
		r += trace + "|" + classify(recover())
	}()
	r = "pre;"
	var nc chan int; c := make(chan int, 1); cl := make(chan int, 1); close(cl); _, _, _ = nc, c, cl
	c <- 1; close(c); use(<-c); use(<-c)
	r += "post;"
	return
}

// chan v, ok := <-cl; use(v); sinkB = ok
func p360() (r string) {
	trace = ""
	defer func() {
		r += trace + "|" + classify(recover())
	}()
	r = "pre;"
	var nc chan int; c := make(chan int, 1); cl := make(chan int, 1); close(cl); _, _, _ = nc, c, cl
	v, ok := <-cl; use(v); sinkB = ok
	r += "post;"
	return
}

// chan select { case cl <- 1: use(1) }
func p361() (r string) {
	trace = ""
	defer func() {
		r += trace + "|" + classify(recover())
	}()
	r = "pre;"
	var nc chan int; c := make(chan int, 1); cl := make(chan int, 1); close(cl); _, _, _ = nc, c, cl
	select { case cl <- 1: use(1) }
	r += "post;"
	return
}

// chan select { case cl <- 1: use(1); default: use(2) }
func p362() (r string) {
	trace = ""
	defer func() {
		r += trace + "|" + classify(recover())
	}()
	r = "pre;"
	var nc chan int; c := make(chan int, 1); cl := make(chan int, 1); close(cl); _, _, _ = nc, c, cl
	select { case cl <- 1: use(1); default: use(2) }
	r += "post;"
	return
}

// chan close(c); select { case c <- 1: default: }
func p363() (r string) {
	trace = ""
	defer func() {
		r += trace + "|" + classify(recover())
	}()
	r = "pre;"
	var nc chan int; c := make(chan int, 1); cl := make(chan int, 1); close(cl); _, _, _ = nc, c, cl
	close(c); select { case c <- 1: default: }
	r += "post;"
	return
}

// chan select { case v := <-nc: use(v); default: use(3) }
func p364() (r string) {
	trace = ""
	defer func() {
		r += trace + "|" + classify(recover())
	}()
	r = "pre;"
	var nc chan int; c := make(chan int, 1); cl := make(chan int, 1); close(cl); _, _, _ = nc, c, cl
	select { case v := <-nc: use(v); default: use(3) }
	r += "post;"
	return
}

// chan use(len(nc) + cap(nc))
func p365() (r string) {
	trace = ""
	defer func() {
		r += trace + "|" + classify(recover())
	}()
	r = "pre;"
	var nc chan int; c := make(chan int, 1); cl := make(chan int, 1); close(cl); _, _, _ = nc, c, cl
	use(len(nc) + cap(nc))
	r += "post;"
	return
}

// chan for v := range cl { use(v) }
func p366() (r string) {
	trace = ""
	defer func() {
		r += trace + "|" + classify(recover())
	}()
	r = "pre;"
	var nc chan int; c := make(chan int, 1); cl := make(chan int, 1); close(cl); _, _, _ = nc, c, cl
	for v := range cl { use(v) }
	r += "post;"
	return
}

// chan close(nc)
func p367() (r string) {
	trace = ""
	defer func() {
		r += trace + "|" + classify(recover())
	}()
	r = "pre;"
	var nc chan int; c := make(chan int, 1); cl := make(chan int, 1); close(cl); _, _, _ = nc, c, cl
	close(nc)
	r += "post;"
	return
}

// chan close(cl)
func p368() (r string) {
	trace = ""
	defer func() {
		r += trace + "|" + classify(recover())
	}()
	r = "pre;"
	var nc chan int; c := make(chan int, 1); cl := make(chan int, 1); close(cl); _, _, _ = nc, c, cl
	close(cl)
	r += "post;"
	return
}

// chan cl <- lg(1, 1)
func p369() (r string) {
	trace = ""
	defer func() {
		r += trace + "|" + classify(recover())
	}()
	r = "pre;"
	var nc chan int; c := make(chan int, 1); cl := make(chan int, 1); close(cl); _, _, _ = nc, c, cl
	cl <- lg(1, 1)
	r += "post;"
	return
}

// chan close(c); close(c)
func p370() (r string) {
	trace = ""
	defer func() {
		r += trace + "|" + classify(recover())
	}()
	r = "pre;"
	var nc chan int; c := make(chan int, 1); cl := make(chan int, 1); close(cl); _, _, _ = nc, c, cl
	close(c); close(c)
	r += "post;"
	return
}

// chan c <- 1; close(c); use(<-c); use(<-c)
func p371() (r string) {
	trace = ""
	defer func() {
		r += trace + "|" + classify(recover())
	}()
	r = "pre;"
	var nc chan int; c := make(chan int, 1); cl := make(chan int, 1); close(cl); _, _, _ = nc, c, cl
	c <- 1; close(c); use(<-c); use(<-c)
	r += "post;"
	return
}

// chan v, ok := <-cl; use(v); sinkB = ok
func p372() (r string) {
	trace = ""
	defer func() {
		r += trace + "|" + classify(recover())
	}()
	r = "pre;"
	var nc chan int; c := make(chan int, 1); cl := make(chan int, 1); close(cl); _, _, _ = nc, c, cl
	v, ok := <-cl; use(v); sinkB = ok
	r += "post;"
	return
}

// chan select { case cl <- 1: use(1) }
func p373() (r string) {
	trace = ""
	defer func() {
		r += trace + "|" + classify(recover())
	}()
	r = "pre;"
	var nc chan int; c := make(chan int, 1); cl := make(chan int, 1); close(cl); _, _, _ = nc, c, cl
	select { case cl <- 1: use(1) }
	r += "post;"
	return
}

// chan select { case cl <- 1: use(1); default: use(2) }
func p374() (r string) {
	trace = ""
	defer func() {
		r += trace + "|" + classify(recover())
	}()
	r = "pre;"
	var nc chan int; c := make(chan int, 1); cl := make(chan int, 1); close(cl); _, _, _ = nc, c, cl
	select { case cl <- 1: use(1); default: use(2) }
	r += "post;"
	return
}

// panic panic("boom")
func p375() (r string) {
	trace = ""
	defer func() {
		r += trace + "|" + classify(recover())
	}()
	r = "pre;"
	panic("boom")
	r += "post;"
	return
}

// panic panic(myErr{3})
func p376() (r string) {
	trace = ""
	defer func() {
		r += trace + "|" + classify(recover())
	}()
	r = "pre;"
	panic(myErr{3})
	r += "post;"
	return
}

// panic panic(error(myErr{4}))
func p377() (r string) {
	trace = ""
	defer func() {
		r += trace + "|" + classify(recover())
	}()
	r = "pre;"
	panic(error(myErr{4}))
	r += "post;"
	return
}

// panic panic(42)
func p378() (r string) {
	trace = ""
	defer func() {
		r += trace + "|" + classify(recover())
	}()
	r = "pre;"
	panic(42)
	r += "post;"
	return
}

// panic panic(&T{a: 1})
func p379() (r string) {
	trace = ""
	defer func() {
		r += trace + "|" + classify(recover())
	}()
	r = "pre;"
	panic(&T{a: 1})
	r += "post;"
	return
}

// panic var e error; panic(e)
func p380() (r string) {
	trace = ""
	defer func() {
		r += trace + "|" + classify(recover())
	}()
	r = "pre;"
	var e error; panic(e)
	r += "post;"
	return
}

// panic panic(lg(1, 2) + lg(2, 3))
func p381() (r string) {
	trace = ""
	defer func() {
		r += trace + "|" + classify(recover())
	}()
	r = "pre;"
	panic(lg(1, 2) + lg(2, 3))
	r += "post;"
	return
}

// panic panic(impl{9})
func p382() (r string) {
	trace = ""
	defer func() {
		r += trace + "|" + classify(recover())
	}()
	r = "pre;"
	panic(impl{9})
	r += "post;"
	return
}

// panic panic(3.5)
func p383() (r string) {
	trace = ""
	defer func() {
		r += trace + "|" + classify(recover())
	}()
	r = "pre;"
	panic(3.5)
	r += "post;"
	return
}

// panic panic([]int{1})
func p384() (r string) {
	trace = ""
	defer func() {
		r += trace + "|" + classify(recover())
	}()
	r = "pre;"
	panic([]int{1})
	r += "post;"
	return
}

// panic panic("boom")
func p385() (r string) {
	trace = ""
	defer func() {
		r += trace + "|" + classify(recover())
	}()
	r = "pre;"
	panic("boom")
	r += "post;"
	return
}

// panic panic(myErr{3})
func p386() (r string) {
	trace = ""
	defer func() {
		r += trace + "|" + classify(recover())
	}()
	r = "pre;"
	panic(myErr{3})
	r += "post;"
	return
}

// panic panic(error(myErr{4}))
func p387() (r string) {
	trace = ""
	defer func() {
		r += trace + "|" + classify(recover())
	}()
	r = "pre;"
	panic(error(myErr{4}))
	r += "post;"
	return
}

// panic panic(42)
func p388() (r string) {
	trace = ""
	defer func() {
		r += trace + "|" + classify(recover())
	}()
	r = "pre;"
	panic(42)
	r += "post;"
	return
}

// panic panic(&T{a: 1})
func p389() (r string) {
	trace = ""
	defer func() {
		r += trace + "|" + classify(recover())
	}()
	r = "pre;"
	panic(&T{a: 1})
	r += "post;"
	return
}

// panic var e error; panic(e)
func p390() (r string) {
	trace = ""
	defer func() {
		r += trace + "|" + classify(recover())
	}()
	r = "pre;"
	var e error; panic(e)
	r += "post;"
	return
}

// panic panic(lg(1, 2) + lg(2, 3))
func p391() (r string) {
	trace = ""
	defer func() {
		r += trace + "|" + classify(recover())
	}()
	r = "pre;"
	panic(lg(1, 2) + lg(2, 3))
	r += "post;"
	return
}

// panic panic(impl{9})
func p392() (r string) {
	trace = ""
	defer func() {
		r += trace + "|" + classify(recover())
	}()
	r = "pre;"
	panic(impl{9})
	r += "post;"
	return
}

// panic panic(3.5)
func p393() (r string) {
	trace = ""
	defer func() {
		r += trace + "|" + classify(recover())
	}()
	r = "pre;"
	panic(3.5)
	r += "post;"
	return
}

// panic panic([]int{1})
func p394() (r string) {
	trace = ""
	defer func() {
		r += trace + "|" + classify(recover())
	}()
	r = "pre;"
	panic([]int{1})
	r += "post;"
	return
}

// panic panic("boom")
func p395() (r string) {
	trace = ""
	defer func() {
		r += trace + "|" + classify(recover())
	}()
	r = "pre;"
	panic("boom")
	r += "post;"
	return
}

// panic panic(myErr{3})
func p396() (r string) {
	trace = ""
	defer func() {
		r += trace + "|" + classify(recover())
	}()
	r = "pre;"
	panic(myErr{3})
	r += "post;"
	return
}

// panic panic(error(myErr{4}))
func p397() (r string) {
	trace = ""
	defer func() {
		r += trace + "|" + classify(recover())
	}()
	r = "pre;"
	panic(error(myErr{4}))
	r += "post;"
	return
}

// panic panic(42)
func p398() (r string) {
	trace = ""
	defer func() {
		r += trace + "|" + classify(recover())
	}()
	r = "pre;"
	panic(42)
	r += "post;"
	return
}

// panic panic(&T{a: 1})
func p399() (r string) {
	trace = ""
	defer func() {
		r += trace + "|" + classify(recover())
	}()
	r = "pre;"
	panic(&T{a: 1})
	r += "post;"
	return
}

// panic var e error; panic(e)
func p400() (r string) {
	trace = ""
	defer func() {
		r += trace + "|" + classify(recover())
	}()
	r = "pre;"
	var e error; panic(e)
	r += "post;"
	return
}

// panic panic(lg(1, 2) + lg(2, 3))
func p401() (r string) {
	trace = ""
	defer func() {
		r += trace + "|" + classify(recover())
	}()
	r = "pre;"
	panic(lg(1, 2) + lg(2, 3))
	r += "post;"
	return
}

// panic panic(impl{9})
func p402() (r string) {
	trace = ""
	defer func() {
		r += trace + "|" + classify(recover())
	}()
	r = "pre;"
	panic(impl{9})
	r += "post;"
	return
}

// panic panic(3.5)
func p403() (r string) {
	trace = ""
	defer func() {
		r += trace + "|" + classify(recover())
	}()
	r = "pre;"
	panic(3.5)
	r += "post;"
	return
}

// panic panic([]int{1})
func p404() (r string) {
	trace = ""
	defer func() {
		r += trace + "|" + classify(recover())
	}()
	r = "pre;"
	panic([]int{1})
	r += "post;"
	return
}

// panic panic("boom")
func p405() (r string) {
	trace = ""
	defer func() {
		r += trace + "|" + classify(recover())
	}()
	r = "pre;"
	panic("boom")
	r += "post;"
	return
}

// panic panic(myErr{3})
func p406() (r string) {
	trace = ""
	defer func() {
		r += trace + "|" + classify(recover())
	}()
	r = "pre;"
	panic(myErr{3})
	r += "post;"
	return
}

// panic panic(error(myErr{4}))
func p407() (r string) {
	trace = ""
	defer func() {
		r += trace + "|" + classify(recover())
	}()
	r = "pre;"
	panic(error(myErr{4}))
	r += "post;"
	return
}

// panic panic(42)
func p408() (r string) {
	trace = ""
	defer func() {
		r += trace + "|" + classify(recover())
	}()
	r = "pre;"
	panic(42)
	r += "post;"
	return
}

// panic panic(&T{a: 1})
func p409() (r string) {
	trace = ""
	defer func() {
		r += trace + "|" + classify(recover())
	}()
	r = "pre;"
	panic(&T{a: 1})
	r += "post;"
	return
}

// panic var e error; panic(e)
func p410() (r string) {
	trace = ""
	defer func() {
		r += trace + "|" + classify(recover())
	}()
	r = "pre;"
	var e error; panic(e)
	r += "post;"
	return
}

// panic panic(lg(1, 2) + lg(2, 3))
func p411() (r string) {
	trace = ""
	defer func() {
		r += trace + "|" + classify(recover())
	}()
	r = "pre;"
	panic(lg(1, 2) + lg(2, 3))
	r += "post;"
	return
}

// panic panic(impl{9})
func p412() (r string) {
	trace = ""
	defer func() {
		r += trace + "|" + classify(recover())
	}()
	r = "pre;"
	panic(impl{9})
	r += "post;"
	return
}

// panic panic(3.5)
func p413() (r string) {
	trace = ""
	defer func() {
		r += trace + "|" + classify(recover())
	}()
	r = "pre;"
	panic(3.5)
	r += "post;"
	return
}

// panic panic([]int{1})
func p414() (r string) {
	trace = ""
	defer func() {
		r += trace + "|" + classify(recover())
	}()
	r = "pre;"
	panic([]int{1})
	r += "post;"
	return
}

// order sl[lg(1, 5)] = lg(2, 9)
func p415() (r string) {
	trace = ""
	defer func() {
		r += trace + "|" + classify(recover())
	}()
	r = "pre;"
	sl := []int{1, 2, 3}; m := map[string]int{}; var nm map[string]int; _, _, _ = sl, m, nm
	sl[lg(1, 5)] = lg(2, 9)
	r += "post;"
	return
}

// order lgs(1, sl)[lg(2, 7)] = lg(3, 1)
func p416() (r string) {
	trace = ""
	defer func() {
		r += trace + "|" + classify(recover())
	}()
	r = "pre;"
	sl := []int{1, 2, 3}; m := map[string]int{}; var nm map[string]int; _, _, _ = sl, m, nm
	lgs(1, sl)[lg(2, 7)] = lg(3, 1)
	r += "post;"
	return
}

// order lgm(1, nm)["k"] = lg(2, 1)
func p417() (r string) {
	trace = ""
	defer func() {
		r += trace + "|" + classify(recover())
	}()
	r = "pre;"
	sl := []int{1, 2, 3}; m := map[string]int{}; var nm map[string]int; _, _, _ = sl, m, nm
	lgm(1, nm)["k"] = lg(2, 1)
	r += "post;"
	return
}

// order sl[lg(1, 0)], sl[lg(2, 9)] = lg(3, 4), lg(4, 5)
func p418() (r string) {
	trace = ""
	defer func() {
		r += trace + "|" + classify(recover())
	}()
	r = "pre;"
	sl := []int{1, 2, 3}; m := map[string]int{}; var nm map[string]int; _, _, _ = sl, m, nm
	sl[lg(1, 0)], sl[lg(2, 9)] = lg(3, 4), lg(4, 5)
	r += "post;"
	return
}

// order use(lg(1, 1) / lg(2, 0))
func p419() (r string) {
	trace = ""
	defer func() {
		r += trace + "|" + classify(recover())
	}()
	r = "pre;"
	sl := []int{1, 2, 3}; m := map[string]int{}; var nm map[string]int; _, _, _ = sl, m, nm
	use(lg(1, 1) / lg(2, 0))
	r += "post;"
	return
}

// order use(lg(1, 8) + sl[lg(2, 3)])
func p420() (r string) {
	trace = ""
	defer func() {
		r += trace + "|" + classify(recover())
	}()
	r = "pre;"
	sl := []int{1, 2, 3}; m := map[string]int{}; var nm map[string]int; _, _, _ = sl, m, nm
	use(lg(1, 8) + sl[lg(2, 3)])
	r += "post;"
	return
}

// order x := []int{lg(1, 1), sl[lg(2, 4)]}; use(x[0])
func p421() (r string) {
	trace = ""
	defer func() {
		r += trace + "|" + classify(recover())
	}()
	r = "pre;"
	sl := []int{1, 2, 3}; m := map[string]int{}; var nm map[string]int; _, _, _ = sl, m, nm
	x := []int{lg(1, 1), sl[lg(2, 4)]}; use(x[0])
	r += "post;"
	return
}

// order sl[lg(1, 5)] = lg(2, 9)
func p422() (r string) {
	trace = ""
	defer func() {
		r += trace + "|" + classify(recover())
	}()
	r = "pre;"
	sl := []int{1, 2, 3}; m := map[string]int{}; var nm map[string]int; _, _, _ = sl, m, nm
	sl[lg(1, 5)] = lg(2, 9)
	r += "post;"
	return
}

// order lgs(1, sl)[lg(2, 7)] = lg(3, 1)
func p423() (r string) {
	trace = ""
	defer func() {
		r += trace + "|" + classify(recover())
	}()
	r = "pre;"
	sl := []int{1, 2, 3}; m := map[string]int{}; var nm map[string]int; _, _, _ = sl, m, nm
	lgs(1, sl)[lg(2, 7)] = lg(3, 1)
	r += "post;"
	return
}

// order lgm(1, nm)["k"] = lg(2, 1)
func p424() (r string) {
	trace = ""
	defer func() {
		r += trace + "|" + classify(recover())
	}()
	r = "pre;"
	sl := []int{1, 2, 3}; m := map[string]int{}; var nm map[string]int; _, _, _ = sl, m, nm
	lgm(1, nm)["k"] = lg(2, 1)
	r += "post;"
	return
}

// order sl[lg(1, 0)], sl[lg(2, 9)] = lg(3, 4), lg(4, 5)
func p425() (r string) {
	trace = ""
	defer func() {
		r += trace + "|" + classify(recover())
	}()
	r = "pre;"
	sl := []int{1, 2, 3}; m := map[string]int{}; var nm map[string]int; _, _, _ = sl, m, nm
	sl[lg(1, 0)], sl[lg(2, 9)] = lg(3, 4), lg(4, 5)
	r += "post;"
	return
}

// order use(lg(1, 1) / lg(2, 0))
func p426() (r string) {
	trace = ""
	defer func() {
		r += trace + "|" + classify(recover())
	}()
	r = "pre;"
	sl := []int{1, 2, 3}; m := map[string]int{}; var nm map[string]int; _, _, _ = sl, m, nm
	use(lg(1, 1) / lg(2, 0))
	r += "post;"
	return
}

// order use(lg(1, 8) + sl[lg(2, 3)])
func p427() (r string) {
	trace = ""
	defer func() {
		r += trace + "|" + classify(recover())
	}()
	r = "pre;"
	sl := []int{1, 2, 3}; m := map[string]int{}; var nm map[string]int; _, _, _ = sl, m, nm
	use(lg(1, 8) + sl[lg(2, 3)])
	r += "post;"
	return
}

// order x := []int{lg(1, 1), sl[lg(2, 4)]}; use(x[0])
func p428() (r string) {
	trace = ""
	defer func() {
		r += trace + "|" + classify(recover())
	}()
	r = "pre;"
	sl := []int{1, 2, 3}; m := map[string]int{}; var nm map[string]int; _, _, _ = sl, m, nm
	x := []int{lg(1, 1), sl[lg(2, 4)]}; use(x[0])
	r += "post;"
	return
}

// order sl[lg(1, 5)] = lg(2, 9)
func p429() (r string) {
	trace = ""
	defer func() {
		r += trace + "|" + classify(recover())
	}()
	r = "pre;"
	sl := []int{1, 2, 3}; m := map[string]int{}; var nm map[string]int; _, _, _ = sl, m, nm
	sl[lg(1, 5)] = lg(2, 9)
	r += "post;"
	return
}

// order lgs(1, sl)[lg(2, 7)] = lg(3, 1)
func p430() (r string) {
	trace = ""
	defer func() {
		r += trace + "|" + classify(recover())
	}()
	r = "pre;"
	sl := []int{1, 2, 3}; m := map[string]int{}; var nm map[string]int; _, _, _ = sl, m, nm
	lgs(1, sl)[lg(2, 7)] = lg(3, 1)
	r += "post;"
	return
}

// order lgm(1, nm)["k"] = lg(2, 1)
func p431() (r string) {
	trace = ""
	defer func() {
		r += trace + "|" + classify(recover())
	}()
	r = "pre;"
	sl := []int{1, 2, 3}; m := map[string]int{}; var nm map[string]int; _, _, _ = sl, m, nm
	lgm(1, nm)["k"] = lg(2, 1)
	r += "post;"
	return
}

// order sl[lg(1, 0)], sl[lg(2, 9)] = lg(3, 4), lg(4, 5)
func p432() (r string) {
	trace = ""
	defer func() {
		r += trace + "|" + classify(recover())
	}()
	r = "pre;"
	sl := []int{1, 2, 3}; m := map[string]int{}; var nm map[string]int; _, _, _ = sl, m, nm
	sl[lg(1, 0)], sl[lg(2, 9)] = lg(3, 4), lg(4, 5)
	r += "post;"
	return
}

// order use(lg(1, 1) / lg(2, 0))
func p433() (r string) {
	trace = ""
	defer func() {
		r += trace + "|" + classify(recover())
	}()
	r = "pre;"
	sl := []int{1, 2, 3}; m := map[string]int{}; var nm map[string]int; _, _, _ = sl, m, nm
	use(lg(1, 1) / lg(2, 0))
	r += "post;"
	return
}

// order use(lg(1, 8) + sl[lg(2, 3)])
func p434() (r string) {
	trace = ""
	defer func() {
		r += trace + "|" + classify(recover())
	}()
	r = "pre;"
	sl := []int{1, 2, 3}; m := map[string]int{}; var nm map[string]int; _, _, _ = sl, m, nm
	use(lg(1, 8) + sl[lg(2, 3)])
	r += "post;"
	return
}

// nopanic s := "abc"; use(len(s[3:]))
func p435() (r string) {
	trace = ""
	defer func() {
		r += trace + "|" + classify(recover())
	}()
	r = "pre;"
	s := "abc"; use(len(s[3:]))
	r += "post;"
	return
}

// nopanic var s []int; use(len(s[0:0]))
func p436() (r string) {
	trace = ""
	defer func() {
		r += trace + "|" + classify(recover())
	}()
	r = "pre;"
	var s []int; use(len(s[0:0]))
	r += "post;"
	return
}

// nopanic var s []int; s = append(s, 1); use(s[0])
func p437() (r string) {
	trace = ""
	defer func() {
		r += trace + "|" + classify(recover())
	}()
	r = "pre;"
	var s []int; s = append(s, 1); use(s[0])
	r += "post;"
	return
}

// nopanic var m map[string]int; v, ok := m["k"]; use(v); sinkB = ok
func p438() (r string) {
	trace = ""
	defer func() {
		r += trace + "|" + classify(recover())
	}()
	r = "pre;"
	var m map[string]int; v, ok := m["k"]; use(v); sinkB = ok
	r += "post;"
	return
}

// nopanic var p *T; sinkB = p == nil
func p439() (r string) {
	trace = ""
	defer func() {
		r += trace + "|" + classify(recover())
	}()
	r = "pre;"
	var p *T; sinkB = p == nil
	r += "post;"
	return
}

// nopanic var f func(); sinkB = f == nil
func p440() (r string) {
	trace = ""
	defer func() {
		r += trace + "|" + classify(recover())
	}()
	r = "pre;"
	var f func(); sinkB = f == nil
	r += "post;"
	return
}

// nopanic var i interface{}; _, ok := i.(int); sinkB = ok
func p441() (r string) {
	trace = ""
	defer func() {
		r += trace + "|" + classify(recover())
	}()
	r = "pre;"
	var i interface{}; _, ok := i.(int); sinkB = ok
	r += "post;"
	return
}

// nopanic a := [3]int{}; i := 2; use(a[i])
func p442() (r string) {
	trace = ""
	defer func() {
		r += trace + "|" + classify(recover())
	}()
	r = "pre;"
	a := [3]int{}; i := 2; use(a[i])
	r += "post;"
	return
}

// nopanic s := make([]int, 0); use(len(s[:0:0]))
func p443() (r string) {
	trace = ""
	defer func() {
		r += trace + "|" + classify(recover())
	}()
	r = "pre;"
	s := make([]int, 0); use(len(s[:0:0]))
	r += "post;"
	return
}

// nopanic var c chan int; sinkB = c == nil
func p444() (r string) {
	trace = ""
	defer func() {
		r += trace + "|" + classify(recover())
	}()
	r = "pre;"
	var c chan int; sinkB = c == nil
	r += "post;"
	return
}

// nopanic s := "abc"; use(len(s[3:]))
func p445() (r string) {
	trace = ""
	defer func() {
		r += trace + "|" + classify(recover())
	}()
	r = "pre;"
	s := "abc"; use(len(s[3:]))
	r += "post;"
	return
}

// nopanic var s []int; use(len(s[0:0]))
func p446() (r string) {
	trace = ""
	defer func() {
		r += trace + "|" + classify(recover())
	}()
	r = "pre;"
	var s []int; use(len(s[0:0]))
	r += "post;"
	return
}

// nopanic var s []int; s = append(s, 1); use(s[0])
func p447() (r string) {
	trace = ""
	defer func() {
		r += trace + "|" + classify(recover())
	}()
	r = "pre;"
	var s []int; s = append(s, 1); use(s[0])
	r += "post;"
	return
}

// nopanic var m map[string]int; v, ok := m["k"]; use(v); sinkB = ok
func p448() (r string) {
	trace = ""
	defer func() {
		r += trace + "|" + classify(recover())
	}()
	r = "pre;"
	var m map[string]int; v, ok := m["k"]; use(v); sinkB = ok
	r += "post;"
	return
}

// nopanic var p *T; sinkB = p == nil
func p449() (r string) {
	trace = ""
	defer func() {
		r += trace + "|" + classify(recover())
	}()
	r = "pre;"
	var p *T; sinkB = p == nil
	r += "post;"
	return
}

// nopanic var f func(); sinkB = f == nil
func p450() (r string) {
	trace = ""
	defer func() {
		r += trace + "|" + classify(recover())
	}()
	r = "pre;"
	var f func(); sinkB = f == nil
	r += "post;"
	return
}

// nopanic var i interface{}; _, ok := i.(int); sinkB = ok
func p451() (r string) {
	trace = ""
	defer func() {
		r += trace + "|" + classify(recover())
	}()
	r = "pre;"
	var i interface{}; _, ok := i.(int); sinkB = ok
	r += "post;"
	return
}

// nopanic a := [3]int{}; i := 2; use(a[i])
func p452() (r string) {
	trace = ""
	defer func() {
		r += trace + "|" + classify(recover())
	}()
	r = "pre;"
	a := [3]int{}; i := 2; use(a[i])
	r += "post;"
	return
}

// nopanic s := make([]int, 0); use(len(s[:0:0]))
func p453() (r string) {
	trace = ""
	defer func() {
		r += trace + "|" + classify(recover())
	}()
	r = "pre;"
	s := make([]int, 0); use(len(s[:0:0]))
	r += "post;"
	return
}

// nopanic var c chan int; sinkB = c == nil
func p454() (r string) {
	trace = ""
	defer func() {
		r += trace + "|" + classify(recover())
	}()
	r = "pre;"
	var c chan int; sinkB = c == nil
	r += "post;"
	return
}

// copyappend var d []int; use(copy(d, []int{1}))
func p455() (r string) {
	trace = ""
	defer func() {
		r += trace + "|" + classify(recover())
	}()
	r = "pre;"
	var d []int; use(copy(d, []int{1}))
	r += "post;"
	return
}

// copyappend d := make([]int, 2); use(copy(d, []int(nil)) + 0)
func p456() (r string) {
	trace = ""
	defer func() {
		r += trace + "|" + classify(recover())
	}()
	r = "pre;"
	d := make([]int, 2); use(copy(d, []int(nil)) + 0)
	r += "post;"
	return
}

// copyappend var s []int; s = append(s[:0], s...); use(len(s))
func p457() (r string) {
	trace = ""
	defer func() {
		r += trace + "|" + classify(recover())
	}()
	r = "pre;"
	var s []int; s = append(s[:0], s...); use(len(s))
	r += "post;"
	return
}

// copyappend s := []int{1}; s = append(s[:1], s[:1]...); use(s[1])
func p458() (r string) {
	trace = ""
	defer func() {
		r += trace + "|" + classify(recover())
	}()
	r = "pre;"
	s := []int{1}; s = append(s[:1], s[:1]...); use(s[1])
	r += "post;"
	return
}

// copyappend b := []byte("ab"); use(copy(b, "xyz")); use(int(b[1]))
func p459() (r string) {
	trace = ""
	defer func() {
		r += trace + "|" + classify(recover())
	}()
	r = "pre;"
	b := []byte("ab"); use(copy(b, "xyz")); use(int(b[1]))
	r += "post;"
	return
}

// copyappend var d []int; use(copy(d, []int{1}))
func p460() (r string) {
	trace = ""
	defer func() {
		r += trace + "|" + classify(recover())
	}()
	r = "pre;"
	var d []int; use(copy(d, []int{1}))
	r += "post;"
	return
}

// copyappend d := make([]int, 2); use(copy(d, []int(nil)) + 0)
func p461() (r string) {
	trace = ""
	defer func() {
		r += trace + "|" + classify(recover())
	}()
	r = "pre;"
	d := make([]int, 2); use(copy(d, []int(nil)) + 0)
	r += "post;"
	return
}

// copyappend var s []int; s = append(s[:0], s...); use(len(s))
func p462() (r string) {
	trace = ""
	defer func() {
		r += trace + "|" + classify(recover())
	}()
	r = "pre;"
	var s []int; s = append(s[:0], s...); use(len(s))
	r += "post;"
	return
}

// copyappend s := []int{1}; s = append(s[:1], s[:1]...); use(s[1])
func p463() (r string) {
	trace = ""
	defer func() {
		r += trace + "|" + classify(recover())
	}()
	r = "pre;"
	s := []int{1}; s = append(s[:1], s[:1]...); use(s[1])
	r += "post;"
	return
}

// copyappend b := []byte("ab"); use(copy(b, "xyz")); use(int(b[1]))
func p464() (r string) {
	trace = ""
	defer func() {
		r += trace + "|" + classify(recover())
	}()
	r = "pre;"
	b := []byte("ab"); use(copy(b, "xyz")); use(int(b[1]))
	r += "post;"
	return
}

// copyappend var d []int; use(copy(d, []int{1}))
func p465() (r string) {
	trace = ""
	defer func() {
		r += trace + "|" + classify(recover())
	}()
	r = "pre;"
	var d []int; use(copy(d, []int{1}))
	r += "post;"
	return
}

// copyappend d := make([]int, 2); use(copy(d, []int(nil)) + 0)
func p466() (r string) {
	trace = ""
	defer func() {
		r += trace + "|" + classify(recover())
	}()
	r = "pre;"
	d := make([]int, 2); use(copy(d, []int(nil)) + 0)
	r += "post;"
	return
}

// copyappend var s []int; s = append(s[:0], s...); use(len(s))
func p467() (r string) {
	trace = ""
	defer func() {
		r += trace + "|" + classify(recover())
	}()
	r = "pre;"
	var s []int; s = append(s[:0], s...); use(len(s))
	r += "post;"
	return
}

// copyappend s := []int{1}; s = append(s[:1], s[:1]...); use(s[1])
func p468() (r string) {
	trace = ""
	defer func() {
		r += trace + "|" + classify(recover())
	}()
	r = "pre;"
	s := []int{1}; s = append(s[:1], s[:1]...); use(s[1])
	r += "post;"
	return
}

// copyappend b := []byte("ab"); use(copy(b, "xyz")); use(int(b[1]))
func p469() (r string) {
	trace = ""
	defer func() {
		r += trace + "|" + classify(recover())
	}()
	r = "pre;"
	b := []byte("ab"); use(copy(b, "xyz")); use(int(b[1]))
	r += "post;"
	return
}

// copyappend var d []int; use(copy(d, []int{1}))
func p470() (r string) {
	trace = ""
	defer func() {
		r += trace + "|" + classify(recover())
	}()
	r = "pre;"
	var d []int; use(copy(d, []int{1}))
	r += "post;"
	return
}

// copyappend d := make([]int, 2); use(copy(d, []int(nil)) + 0)
func p471() (r string) {
	trace = ""
	defer func() {
		r += trace + "|" + classify(recover())
	}()
	r = "pre;"
	d := make([]int, 2); use(copy(d, []int(nil)) + 0)
	r += "post;"
	return
}

// copyappend var s []int; s = append(s[:0], s...); use(len(s))
func p472() (r string) {
	trace = ""
	defer func() {
		r += trace + "|" + classify(recover())
	}()
	r = "pre;"
	var s []int; s = append(s[:0], s...); use(len(s))
	r += "post;"
	return
}

// copyappend s := []int{1}; s = append(s[:1], s[:1]...); use(s[1])
func p473() (r string) {
	trace = ""
	defer func() {
		r += trace + "|" + classify(recover())
	}()
	r = "pre;"
	s := []int{1}; s = append(s[:1], s[:1]...); use(s[1])
	r += "post;"
	return
}

// copyappend b := []byte("ab"); use(copy(b, "xyz")); use(int(b[1]))
func p474() (r string) {
	trace = ""
	defer func() {
		r += trace + "|" + classify(recover())
	}()
	r = "pre;"
	b := []byte("ab"); use(copy(b, "xyz")); use(int(b[1]))
	r += "post;"
	return
}

// nested-nil use(n.in.a)
func p475() (r string) {
	trace = ""
	defer func() {
		r += trace + "|" + classify(recover())
	}()
	r = "pre;"
	type N struct{ in *T; arr [2]*T }; var n N; pn := &n; var npn *N; _, _, _ = n, pn, npn
	use(n.in.a)
	r += "post;"
	return
}

// nested-nil use(pn.in.a)
func p476() (r string) {
	trace = ""
	defer func() {
		r += trace + "|" + classify(recover())
	}()
	r = "pre;"
	type N struct{ in *T; arr [2]*T }; var n N; pn := &n; var npn *N; _, _, _ = n, pn, npn
	use(pn.in.a)
	r += "post;"
	return
}

// nested-nil use(n.arr[1].a)
func p477() (r string) {
	trace = ""
	defer func() {
		r += trace + "|" + classify(recover())
	}()
	r = "pre;"
	type N struct{ in *T; arr [2]*T }; var n N; pn := &n; var npn *N; _, _, _ = n, pn, npn
	use(n.arr[1].a)
	r += "post;"
	return
}

// nested-nil use(npn.arr[0].a)
func p478() (r string) {
	trace = ""
	defer func() {
		r += trace + "|" + classify(recover())
	}()
	r = "pre;"
	type N struct{ in *T; arr [2]*T }; var n N; pn := &n; var npn *N; _, _, _ = n, pn, npn
	use(npn.arr[0].a)
	r += "post;"
	return
}

// nested-nil n.arr[lg(1, 1)].a = 2
func p479() (r string) {
	trace = ""
	defer func() {
		r += trace + "|" + classify(recover())
	}()
	r = "pre;"
	type N struct{ in *T; arr [2]*T }; var n N; pn := &n; var npn *N; _, _, _ = n, pn, npn
	n.arr[lg(1, 1)].a = 2
	r += "post;"
	return
}

// nested-nil use(len(npn.arr))
func p480() (r string) {
	trace = ""
	defer func() {
		r += trace + "|" + classify(recover())
	}()
	r = "pre;"
	type N struct{ in *T; arr [2]*T }; var n N; pn := &n; var npn *N; _, _, _ = n, pn, npn
	use(len(npn.arr))
	r += "post;"
	return
}

// nested-nil sinkB = npn.in == nil
func p481() (r string) {
	trace = ""
	defer func() {
		r += trace + "|" + classify(recover())
	}()
	r = "pre;"
	type N struct{ in *T; arr [2]*T }; var n N; pn := &n; var npn *N; _, _, _ = n, pn, npn
	sinkB = npn.in == nil
	r += "post;"
	return
}

// nested-nil use(n.in.a)
func p482() (r string) {
	trace = ""
	defer func() {
		r += trace + "|" + classify(recover())
	}()
	r = "pre;"
	type N struct{ in *T; arr [2]*T }; var n N; pn := &n; var npn *N; _, _, _ = n, pn, npn
	use(n.in.a)
	r += "post;"
	return
}

// nested-nil use(pn.in.a)
func p483() (r string) {
	trace = ""
	defer func() {
		r += trace + "|" + classify(recover())
	}()
	r = "pre;"
	type N struct{ in *T; arr [2]*T }; var n N; pn := &n; var npn *N; _, _, _ = n, pn, npn
	use(pn.in.a)
	r += "post;"
	return
}

// nested-nil use(n.arr[1].a)
func p484() (r string) {
	trace = ""
	defer func() {
		r += trace + "|" + classify(recover())
	}()
	r = "pre;"
	type N struct{ in *T; arr [2]*T }; var n N; pn := &n; var npn *N; _, _, _ = n, pn, npn
	use(n.arr[1].a)
	r += "post;"
	return
}

// nested-nil use(npn.arr[0].a)
func p485() (r string) {
	trace = ""
	defer func() {
		r += trace + "|" + classify(recover())
	}()
	r = "pre;"
	type N struct{ in *T; arr [2]*T }; var n N; pn := &n; var npn *N; _, _, _ = n, pn, npn
	use(npn.arr[0].a)
	r += "post;"
	return
}

// nested-nil n.arr[lg(1, 1)].a = 2
func p486() (r string) {
	trace = ""
	defer func() {
		r += trace + "|" + classify(recover())
	}()
	r = "pre;"
	type N struct{ in *T; arr [2]*T }; var n N; pn := &n; var npn *N; _, _, _ = n, pn, npn
	n.arr[lg(1, 1)].a = 2
	r += "post;"
	return
}

// nested-nil use(len(npn.arr))
func p487() (r string) {
	trace = ""
	defer func() {
		r += trace + "|" + classify(recover())
	}()
	r = "pre;"
	type N struct{ in *T; arr [2]*T }; var n N; pn := &n; var npn *N; _, _, _ = n, pn, npn
	use(len(npn.arr))
	r += "post;"
	return
}

// nested-nil sinkB = npn.in == nil
func p488() (r string) {
	trace = ""
	defer func() {
		r += trace + "|" + classify(recover())
	}()
	r = "pre;"
	type N struct{ in *T; arr [2]*T }; var n N; pn := &n; var npn *N; _, _, _ = n, pn, npn
	sinkB = npn.in == nil
	r += "post;"
	return
}

// nested-nil use(n.in.a)
func p489() (r string) {
	trace = ""
	defer func() {
		r += trace + "|" + classify(recover())
	}()
	r = "pre;"
	type N struct{ in *T; arr [2]*T }; var n N; pn := &n; var npn *N; _, _, _ = n, pn, npn
	use(n.in.a)
	r += "post;"
	return
}

// nested-nil use(pn.in.a)
func p490() (r string) {
	trace = ""
	defer func() {
		r += trace + "|" + classify(recover())
	}()
	r = "pre;"
	type N struct{ in *T; arr [2]*T }; var n N; pn := &n; var npn *N; _, _, _ = n, pn, npn
	use(pn.in.a)
	r += "post;"
	return
}

// nested-nil use(n.arr[1].a)
func p491() (r string) {
	trace = ""
	defer func() {
		r += trace + "|" + classify(recover())
	}()
	r = "pre;"
	type N struct{ in *T; arr [2]*T }; var n N; pn := &n; var npn *N; _, _, _ = n, pn, npn
	use(n.arr[1].a)
	r += "post;"
	return
}

// nested-nil use(npn.arr[0].a)
func p492() (r string) {
	trace = ""
	defer func() {
		r += trace + "|" + classify(recover())
	}()
	r = "pre;"
	type N struct{ in *T; arr [2]*T }; var n N; pn := &n; var npn *N; _, _, _ = n, pn, npn
	use(npn.arr[0].a)
	r += "post;"
	return
}

// nested-nil n.arr[lg(1, 1)].a = 2
func p493() (r string) {
	trace = ""
	defer func() {
		r += trace + "|" + classify(recover())
	}()
	r = "pre;"
	type N struct{ in *T; arr [2]*T }; var n N; pn := &n; var npn *N; _, _, _ = n, pn, npn
	n.arr[lg(1, 1)].a = 2
	r += "post;"
	return
}

// nested-nil use(len(npn.arr))
func p494() (r string) {
	trace = ""
	defer func() {
		r += trace + "|" + classify(recover())
	}()
	r = "pre;"
	type N struct{ in *T; arr [2]*T }; var n N; pn := &n; var npn *N; _, _, _ = n, pn, npn
	use(len(npn.arr))
	r += "post;"
	return
}

// nil-call use(i.M())
func p495() (r string) {
	trace = ""
	defer func() {
		r += trace + "|" + classify(recover())
	}()
	r = "pre;"
	var i I; var pi *impl; var ip I = pi; _, _, _ = i, pi, ip
	use(i.M())
	r += "post;"
	return
}

// nil-call f := i.M; use(f())
func p496() (r string) {
	trace = ""
	defer func() {
		r += trace + "|" + classify(recover())
	}()
	r = "pre;"
	var i I; var pi *impl; var ip I = pi; _, _, _ = i, pi, ip
	f := i.M; use(f())
	r += "post;"
	return
}

// nil-call use(ip.M())
func p497() (r string) {
	trace = ""
	defer func() {
		r += trace + "|" + classify(recover())
	}()
	r = "pre;"
	var i I; var pi *impl; var ip I = pi; _, _, _ = i, pi, ip
	use(ip.M())
	r += "post;"
	return
}

// nil-call g := ip.M; use(g())
func p498() (r string) {
	trace = ""
	defer func() {
		r += trace + "|" + classify(recover())
	}()
	r = "pre;"
	var i I; var pi *impl; var ip I = pi; _, _, _ = i, pi, ip
	g := ip.M; use(g())
	r += "post;"
	return
}

// nil-call use(pi.M())
func p499() (r string) {
	trace = ""
	defer func() {
		r += trace + "|" + classify(recover())
	}()
	r = "pre;"
	var i I; var pi *impl; var ip I = pi; _, _, _ = i, pi, ip
	use(pi.M())
	r += "post;"
	return
}

// nil-call h := I.M; use(h(i))
func p500() (r string) {
	trace = ""
	defer func() {
		r += trace + "|" + classify(recover())
	}()
	r = "pre;"
	var i I; var pi *impl; var ip I = pi; _, _, _ = i, pi, ip
	h := I.M; use(h(i))
	r += "post;"
	return
}

// nil-call sinkB = ip == nil
func p501() (r string) {
	trace = ""
	defer func() {
		r += trace + "|" + classify(recover())
	}()
	r = "pre;"
	var i I; var pi *impl; var ip I = pi; _, _, _ = i, pi, ip
	sinkB = ip == nil
	r += "post;"
	return
}

// nil-call sinkB = i == nil
func p502() (r string) {
	trace = ""
	defer func() {
		r += trace + "|" + classify(recover())
	}()
	r = "pre;"
	var i I; var pi *impl; var ip I = pi; _, _, _ = i, pi, ip
	sinkB = i == nil
	r += "post;"
	return
}

// nil-call f := i.M; lg(1, 1); use(f())
func p503() (r string) {
	trace = ""
	defer func() {
		r += trace + "|" + classify(recover())
	}()
	r = "pre;"
	var i I; var pi *impl; var ip I = pi; _, _, _ = i, pi, ip
	f := i.M; lg(1, 1); use(f())
	r += "post;"
	return
}

// nil-call g := ip.M; lg(1, 1); use(g())
func p504() (r string) {
	trace = ""
	defer func() {
		r += trace + "|" + classify(recover())
	}()
	r = "pre;"
	var i I; var pi *impl; var ip I = pi; _, _, _ = i, pi, ip
	g := ip.M; lg(1, 1); use(g())
	r += "post;"
	return
}

// nil-call var e struct{ I }; f := e.M; lg(1, 1); use(f())
func p505() (r string) {
	trace = ""
	defer func() {
		r += trace + "|" + classify(recover())
	}()
	r = "pre;"
	var i I; var pi *impl; var ip I = pi; _, _, _ = i, pi, ip
	var e struct{ I }; f := e.M; lg(1, 1); use(f())
	r += "post;"
	return
}

// nil-call var e struct{ I }; lg(1, 1); use(e.M())
func p506() (r string) {
	trace = ""
	defer func() {
		r += trace + "|" + classify(recover())
	}()
	r = "pre;"
	var i I; var pi *impl; var ip I = pi; _, _, _ = i, pi, ip
	var e struct{ I }; lg(1, 1); use(e.M())
	r += "post;"
	return
}

// nil-call h := I.M; lg(1, 1); use(h(i))
func p507() (r string) {
	trace = ""
	defer func() {
		r += trace + "|" + classify(recover())
	}()
	r = "pre;"
	var i I; var pi *impl; var ip I = pi; _, _, _ = i, pi, ip
	h := I.M; lg(1, 1); use(h(i))
	r += "post;"
	return
}

// nil-call f := pi.M; lg(1, 1); use(f())
func p508() (r string) {
	trace = ""
	defer func() {
		r += trace + "|" + classify(recover())
	}()
	r = "pre;"
	var i I; var pi *impl; var ip I = pi; _, _, _ = i, pi, ip
	f := pi.M; lg(1, 1); use(f())
	r += "post;"
	return
}

// nil-call use(i.M())
func p509() (r string) {
	trace = ""
	defer func() {
		r += trace + "|" + classify(recover())
	}()
	r = "pre;"
	var i I; var pi *impl; var ip I = pi; _, _, _ = i, pi, ip
	use(i.M())
	r += "post;"
	return
}

// nil-call f := i.M; use(f())
func p510() (r string) {
	trace = ""
	defer func() {
		r += trace + "|" + classify(recover())
	}()
	r = "pre;"
	var i I; var pi *impl; var ip I = pi; _, _, _ = i, pi, ip
	f := i.M; use(f())
	r += "post;"
	return
}

// nil-call use(ip.M())
func p511() (r string) {
	trace = ""
	defer func() {
		r += trace + "|" + classify(recover())
	}()
	r = "pre;"
	var i I; var pi *impl; var ip I = pi; _, _, _ = i, pi, ip
	use(ip.M())
	r += "post;"
	return
}

// nil-call g := ip.M; use(g())
func p512() (r string) {
	trace = ""
	defer func() {
		r += trace + "|" + classify(recover())
	}()
	r = "pre;"
	var i I; var pi *impl; var ip I = pi; _, _, _ = i, pi, ip
	g := ip.M; use(g())
	r += "post;"
	return
}

// nil-call use(pi.M())
func p513() (r string) {
	trace = ""
	defer func() {
		r += trace + "|" + classify(recover())
	}()
	r = "pre;"
	var i I; var pi *impl; var ip I = pi; _, _, _ = i, pi, ip
	use(pi.M())
	r += "post;"
	return
}

// nil-call h := I.M; use(h(i))
func p514() (r string) {
	trace = ""
	defer func() {
		r += trace + "|" + classify(recover())
	}()
	r = "pre;"
	var i I; var pi *impl; var ip I = pi; _, _, _ = i, pi, ip
	h := I.M; use(h(i))
	r += "post;"
	return
}

// string use(int(s[j]))
func p515() (r string) {
	trace = ""
	defer func() {
		r += trace + "|" + classify(recover())
	}()
	r = "pre;"
	s := "héllo"; b := []byte(s); rs := []rune(s); j := len(s); _, _, _, _ = s, b, rs, j
	use(int(s[j]))
	r += "post;"
	return
}

// string use(int(s[j-1]))
func p516() (r string) {
	trace = ""
	defer func() {
		r += trace + "|" + classify(recover())
	}()
	r = "pre;"
	s := "héllo"; b := []byte(s); rs := []rune(s); j := len(s); _, _, _, _ = s, b, rs, j
	use(int(s[j-1]))
	r += "post;"
	return
}

// string use(int(b[j]))
func p517() (r string) {
	trace = ""
	defer func() {
		r += trace + "|" + classify(recover())
	}()
	r = "pre;"
	s := "héllo"; b := []byte(s); rs := []rune(s); j := len(s); _, _, _, _ = s, b, rs, j
	use(int(b[j]))
	r += "post;"
	return
}

// string use(int(rs[j]))
func p518() (r string) {
	trace = ""
	defer func() {
		r += trace + "|" + classify(recover())
	}()
	r = "pre;"
	s := "héllo"; b := []byte(s); rs := []rune(s); j := len(s); _, _, _, _ = s, b, rs, j
	use(int(rs[j]))
	r += "post;"
	return
}

// string use(int(rs[len(rs)-1]))
func p519() (r string) {
	trace = ""
	defer func() {
		r += trace + "|" + classify(recover())
	}()
	r = "pre;"
	s := "héllo"; b := []byte(s); rs := []rune(s); j := len(s); _, _, _, _ = s, b, rs, j
	use(int(rs[len(rs)-1]))
	r += "post;"
	return
}

// string use(len(s[j:]))
func p520() (r string) {
	trace = ""
	defer func() {
		r += trace + "|" + classify(recover())
	}()
	r = "pre;"
	s := "héllo"; b := []byte(s); rs := []rune(s); j := len(s); _, _, _, _ = s, b, rs, j
	use(len(s[j:]))
	r += "post;"
	return
}

// string use(len(s[j+1:]))
func p521() (r string) {
	trace = ""
	defer func() {
		r += trace + "|" + classify(recover())
	}()
	r = "pre;"
	s := "héllo"; b := []byte(s); rs := []rune(s); j := len(s); _, _, _, _ = s, b, rs, j
	use(len(s[j+1:]))
	r += "post;"
	return
}

// string use(len(s[:j+1]))
func p522() (r string) {
	trace = ""
	defer func() {
		r += trace + "|" + classify(recover())
	}()
	r = "pre;"
	s := "héllo"; b := []byte(s); rs := []rune(s); j := len(s); _, _, _, _ = s, b, rs, j
	use(len(s[:j+1]))
	r += "post;"
	return
}

// string use(len(s[2:1+j-j]))
func p523() (r string) {
	trace = ""
	defer func() {
		r += trace + "|" + classify(recover())
	}()
	r = "pre;"
	s := "héllo"; b := []byte(s); rs := []rune(s); j := len(s); _, _, _, _ = s, b, rs, j
	use(len(s[2:1+j-j]))
	r += "post;"
	return
}

// string use(int(s[j]))
func p524() (r string) {
	trace = ""
	defer func() {
		r += trace + "|" + classify(recover())
	}()
	r = "pre;"
	s := "héllo"; b := []byte(s); rs := []rune(s); j := len(s); _, _, _, _ = s, b, rs, j
	use(int(s[j]))
	r += "post;"
	return
}

// string use(int(s[j-1]))
func p525() (r string) {
	trace = ""
	defer func() {
		r += trace + "|" + classify(recover())
	}()
	r = "pre;"
	s := "héllo"; b := []byte(s); rs := []rune(s); j := len(s); _, _, _, _ = s, b, rs, j
	use(int(s[j-1]))
	r += "post;"
	return
}

// string use(int(b[j]))
func p526() (r string) {
	trace = ""
	defer func() {
		r += trace + "|" + classify(recover())
	}()
	r = "pre;"
	s := "héllo"; b := []byte(s); rs := []rune(s); j := len(s); _, _, _, _ = s, b, rs, j
	use(int(b[j]))
	r += "post;"
	return
}

// string use(int(rs[j]))
func p527() (r string) {
	trace = ""
	defer func() {
		r += trace + "|" + classify(recover())
	}()
	r = "pre;"
	s := "héllo"; b := []byte(s); rs := []rune(s); j := len(s); _, _, _, _ = s, b, rs, j
	use(int(rs[j]))
	r += "post;"
	return
}

// string use(int(rs[len(rs)-1]))
func p528() (r string) {
	trace = ""
	defer func() {
		r += trace + "|" + classify(recover())
	}()
	r = "pre;"
	s := "héllo"; b := []byte(s); rs := []rune(s); j := len(s); _, _, _, _ = s, b, rs, j
	use(int(rs[len(rs)-1]))
	r += "post;"
	return
}

// string use(len(s[j:]))
func p529() (r string) {
	trace = ""
	defer func() {
		r += trace + "|" + classify(recover())
	}()
	r = "pre;"
	s := "héllo"; b := []byte(s); rs := []rune(s); j := len(s); _, _, _, _ = s, b, rs, j
	use(len(s[j:]))
	r += "post;"
	return
}

// string use(len(s[j+1:]))
func p530() (r string) {
	trace = ""
	defer func() {
		r += trace + "|" + classify(recover())
	}()
	r = "pre;"
	s := "héllo"; b := []byte(s); rs := []rune(s); j := len(s); _, _, _, _ = s, b, rs, j
	use(len(s[j+1:]))
	r += "post;"
	return
}

// string use(len(s[:j+1]))
func p531() (r string) {
	trace = ""
	defer func() {
		r += trace + "|" + classify(recover())
	}()
	r = "pre;"
	s := "héllo"; b := []byte(s); rs := []rune(s); j := len(s); _, _, _, _ = s, b, rs, j
	use(len(s[:j+1]))
	r += "post;"
	return
}

// string use(len(s[2:1+j-j]))
func p532() (r string) {
	trace = ""
	defer func() {
		r += trace + "|" + classify(recover())
	}()
	r = "pre;"
	s := "héllo"; b := []byte(s); rs := []rune(s); j := len(s); _, _, _, _ = s, b, rs, j
	use(len(s[2:1+j-j]))
	r += "post;"
	return
}

// string use(int(s[j]))
func p533() (r string) {
	trace = ""
	defer func() {
		r += trace + "|" + classify(recover())
	}()
	r = "pre;"
	s := "héllo"; b := []byte(s); rs := []rune(s); j := len(s); _, _, _, _ = s, b, rs, j
	use(int(s[j]))
	r += "post;"
	return
}

// string use(int(s[j-1]))
func p534() (r string) {
	trace = ""
	defer func() {
		r += trace + "|" + classify(recover())
	}()
	r = "pre;"
	s := "héllo"; b := []byte(s); rs := []rune(s); j := len(s); _, _, _, _ = s, b, rs, j
	use(int(s[j-1]))
	r += "post;"
	return
}

// shift n := 70; use(1 << uint(n))
func p535() (r string) {
	trace = ""
	defer func() {
		r += trace + "|" + classify(recover())
	}()
	r = "pre;"
	n := 70; use(1 << uint(n))
	r += "post;"
	return
}

// shift var n uint8 = 200; use(int(int32(1) << n))
func p536() (r string) {
	trace = ""
	defer func() {
		r += trace + "|" + classify(recover())
	}()
	r = "pre;"
	var n uint8 = 200; use(int(int32(1) << n))
	r += "post;"
	return
}

// shift n := 31; use(int(int32(-1) >> uint(n)))
func p537() (r string) {
	trace = ""
	defer func() {
		r += trace + "|" + classify(recover())
	}()
	r = "pre;"
	n := 31; use(int(int32(-1) >> uint(n)))
	r += "post;"
	return
}

// shift n := 0; use(8 >> uint(n))
func p538() (r string) {
	trace = ""
	defer func() {
		r += trace + "|" + classify(recover())
	}()
	r = "pre;"
	n := 0; use(8 >> uint(n))
	r += "post;"
	return
}

// shift n := 70; use(1 << uint(n))
func p539() (r string) {
	trace = ""
	defer func() {
		r += trace + "|" + classify(recover())
	}()
	r = "pre;"
	n := 70; use(1 << uint(n))
	r += "post;"
	return
}

// shift var n uint8 = 200; use(int(int32(1) << n))
func p540() (r string) {
	trace = ""
	defer func() {
		r += trace + "|" + classify(recover())
	}()
	r = "pre;"
	var n uint8 = 200; use(int(int32(1) << n))
	r += "post;"
	return
}

// shift n := 31; use(int(int32(-1) >> uint(n)))
func p541() (r string) {
	trace = ""
	defer func() {
		r += trace + "|" + classify(recover())
	}()
	r = "pre;"
	n := 31; use(int(int32(-1) >> uint(n)))
	r += "post;"
	return
}

// shift n := 0; use(8 >> uint(n))
func p542() (r string) {
	trace = ""
	defer func() {
		r += trace + "|" + classify(recover())
	}()
	r = "pre;"
	n := 0; use(8 >> uint(n))
	r += "post;"
	return
}

// shift n := 70; use(1 << uint(n))
func p543() (r string) {
	trace = ""
	defer func() {
		r += trace + "|" + classify(recover())
	}()
	r = "pre;"
	n := 70; use(1 << uint(n))
	r += "post;"
	return
}

// shift var n uint8 = 200; use(int(int32(1) << n))
func p544() (r string) {
	trace = ""
	defer func() {
		r += trace + "|" + classify(recover())
	}()
	r = "pre;"
	var n uint8 = 200; use(int(int32(1) << n))
	r += "post;"
	return
}

// shift n := 31; use(int(int32(-1) >> uint(n)))
func p545() (r string) {
	trace = ""
	defer func() {
		r += trace + "|" + classify(recover())
	}()
	r = "pre;"
	n := 31; use(int(int32(-1) >> uint(n)))
	r += "post;"
	return
}

// shift n := 0; use(8 >> uint(n))
func p546() (r string) {
	trace = ""
	defer func() {
		r += trace + "|" + classify(recover())
	}()
	r = "pre;"
	n := 0; use(8 >> uint(n))
	r += "post;"
	return
}

// shift n := 70; use(1 << uint(n))
func p547() (r string) {
	trace = ""
	defer func() {
		r += trace + "|" + classify(recover())
	}()
	r = "pre;"
	n := 70; use(1 << uint(n))
	r += "post;"
	return
}

// shift var n uint8 = 200; use(int(int32(1) << n))
func p548() (r string) {
	trace = ""
	defer func() {
		r += trace + "|" + classify(recover())
	}()
	r = "pre;"
	var n uint8 = 200; use(int(int32(1) << n))
	r += "post;"
	return
}

// shift n := 31; use(int(int32(-1) >> uint(n)))
func p549() (r string) {
	trace = ""
	defer func() {
		r += trace + "|" + classify(recover())
	}()
	r = "pre;"
	n := 31; use(int(int32(-1) >> uint(n)))
	r += "post;"
	return
}

// shift n := 0; use(8 >> uint(n))
func p550() (r string) {
	trace = ""
	defer func() {
		r += trace + "|" + classify(recover())
	}()
	r = "pre;"
	n := 0; use(8 >> uint(n))
	r += "post;"
	return
}

// shift n := 70; use(1 << uint(n))
func p551() (r string) {
	trace = ""
	defer func() {
		r += trace + "|" + classify(recover())
	}()
	r = "pre;"
	n := 70; use(1 << uint(n))
	r += "post;"
	return
}

// shift var n uint8 = 200; use(int(int32(1) << n))
func p552() (r string) {
	trace = ""
	defer func() {
		r += trace + "|" + classify(recover())
	}()
	r = "pre;"
	var n uint8 = 200; use(int(int32(1) << n))
	r += "post;"
	return
}

// shift n := 31; use(int(int32(-1) >> uint(n)))
func p553() (r string) {
	trace = ""
	defer func() {
		r += trace + "|" + classify(recover())
	}()
	r = "pre;"
	n := 31; use(int(int32(-1) >> uint(n)))
	r += "post;"
	return
}

// shift n := 0; use(8 >> uint(n))
func p554() (r string) {
	trace = ""
	defer func() {
		r += trace + "|" + classify(recover())
	}()
	r = "pre;"
	n := 0; use(8 >> uint(n))
	r += "post;"
	return
}

func main() {
	out("p0 " + "index-write" + " = " + p0())
	out("p1 " + "index-read" + " = " + p1())
	out("p2 " + "index-read" + " = " + p2())
	out("p3 " + "index-read" + " = " + p3())
	out("p4 " + "index-write" + " = " + p4())
	out("p5 " + "index-write" + " = " + p5())
	out("p6 " + "index-write" + " = " + p6())
	out("p7 " + "index-read" + " = " + p7())
	out("p8 " + "index-read" + " = " + p8())
	out("p9 " + "index-write" + " = " + p9())
	out("p10 " + "index-read" + " = " + p10())
	out("p11 " + "index-read" + " = " + p11())
	out("p12 " + "index-read" + " = " + p12())
	out("p13 " + "index-write" + " = " + p13())
	out("p14 " + "index-read" + " = " + p14())
	out("p15 " + "index-read" + " = " + p15())
	out("p16 " + "index-read" + " = " + p16())
	out("p17 " + "index-write" + " = " + p17())
	out("p18 " + "index-write" + " = " + p18())
	out("p19 " + "index-read" + " = " + p19())
	out("p20 " + "index-read" + " = " + p20())
	out("p21 " + "index-read" + " = " + p21())
	out("p22 " + "index-read" + " = " + p22())
	out("p23 " + "index-read" + " = " + p23())
	out("p24 " + "index-write" + " = " + p24())
	out("p25 " + "index-read" + " = " + p25())
	out("p26 " + "index-read" + " = " + p26())
	out("p27 " + "index-read" + " = " + p27())
	out("p28 " + "index-read" + " = " + p28())
	out("p29 " + "index-read" + " = " + p29())
	out("p30 " + "index-read" + " = " + p30())
	out("p31 " + "index-write" + " = " + p31())
	out("p32 " + "index-read" + " = " + p32())
	out("p33 " + "index-read" + " = " + p33())
	out("p34 " + "index-read" + " = " + p34())
	out("p35 " + "index-read" + " = " + p35())
	out("p36 " + "index-write" + " = " + p36())
	out("p37 " + "index-write" + " = " + p37())
	out("p38 " + "index-write" + " = " + p38())
	out("p39 " + "index-read" + " = " + p39())
	out("p40 " + "slice" + " = " + p40())
	out("p41 " + "slice" + " = " + p41())
	out("p42 " + "slice" + " = " + p42())
	out("p43 " + "slice" + " = " + p43())
	out("p44 " + "slice" + " = " + p44())
	out("p45 " + "slice" + " = " + p45())
	out("p46 " + "slice" + " = " + p46())
	out("p47 " + "slice" + " = " + p47())
	out("p48 " + "slice" + " = " + p48())
	out("p49 " + "slice3" + " = " + p49())
	out("p50 " + "slice3" + " = " + p50())
	out("p51 " + "slice" + " = " + p51())
	out("p52 " + "slice3" + " = " + p52())
	out("p53 " + "slice" + " = " + p53())
	out("p54 " + "slice" + " = " + p54())
	out("p55 " + "slice" + " = " + p55())
	out("p56 " + "slice" + " = " + p56())
	out("p57 " + "slice3" + " = " + p57())
	out("p58 " + "slice3" + " = " + p58())
	out("p59 " + "slice" + " = " + p59())
	out("p60 " + "slice" + " = " + p60())
	out("p61 " + "slice" + " = " + p61())
	out("p62 " + "slice" + " = " + p62())
	out("p63 " + "slice" + " = " + p63())
	out("p64 " + "slice3" + " = " + p64())
	out("p65 " + "slice3" + " = " + p65())
	out("p66 " + "slice" + " = " + p66())
	out("p67 " + "slice3" + " = " + p67())
	out("p68 " + "slice3" + " = " + p68())
	out("p69 " + "slice" + " = " + p69())
	out("p70 " + "slice" + " = " + p70())
	out("p71 " + "slice" + " = " + p71())
	out("p72 " + "slice" + " = " + p72())
	out("p73 " + "slice" + " = " + p73())
	out("p74 " + "slice" + " = " + p74())
	out("p75 " + "slice3" + " = " + p75())
	out("p76 " + "slice3" + " = " + p76())
	out("p77 " + "slice3" + " = " + p77())
	out("p78 " + "slice3" + " = " + p78())
	out("p79 " + "slice" + " = " + p79())
	out("p80 " + "nil-map" + " = " + p80())
	out("p81 " + "nil-map" + " = " + p81())
	out("p82 " + "nil-map" + " = " + p82())
	out("p83 " + "nil-map" + " = " + p83())
	out("p84 " + "nil-map" + " = " + p84())
	out("p85 " + "nil-map" + " = " + p85())
	out("p86 " + "nil-map" + " = " + p86())
	out("p87 " + "nil-map" + " = " + p87())
	out("p88 " + "nil-map" + " = " + p88())
	out("p89 " + "nil-map" + " = " + p89())
	out("p90 " + "nil-map" + " = " + p90())
	out("p91 " + "nil-map" + " = " + p91())
	out("p92 " + "nil-map" + " = " + p92())
	out("p93 " + "nil-map" + " = " + p93())
	out("p94 " + "nil-map" + " = " + p94())
	out("p95 " + "nil-map" + " = " + p95())
	out("p96 " + "nil-map" + " = " + p96())
	out("p97 " + "nil-map" + " = " + p97())
	out("p98 " + "nil-map" + " = " + p98())
	out("p99 " + "nil-map" + " = " + p99())
	out("p100 " + "nil-pointer" + " = " + p100())
	out("p101 " + "nil-pointer" + " = " + p101())
	out("p102 " + "nil-pointer" + " = " + p102())
	out("p103 " + "nil-pointer" + " = " + p103())
	out("p104 " + "nil-pointer" + " = " + p104())
	out("p105 " + "nil-pointer" + " = " + p105())
	out("p106 " + "nil-pointer" + " = " + p106())
	out("p107 " + "nil-pointer" + " = " + p107())
	out("p108 " + "nil-pointer" + " = " + p108())
	out("p109 " + "nil-pointer" + " = " + p109())
	out("p110 " + "nil-pointer" + " = " + p110())
	out("p111 " + "nil-pointer" + " = " + p111())
	out("p112 " + "nil-pointer" + " = " + p112())
	out("p113 " + "nil-pointer" + " = " + p113())
	out("p114 " + "nil-pointer" + " = " + p114())
	out("p115 " + "nil-pointer" + " = " + p115())
	out("p116 " + "nil-pointer" + " = " + p116())
	out("p117 " + "nil-pointer" + " = " + p117())
	out("p118 " + "nil-pointer" + " = " + p118())
	out("p119 " + "nil-pointer" + " = " + p119())
	out("p120 " + "nil-pointer" + " = " + p120())
	out("p121 " + "nil-pointer" + " = " + p121())
	out("p122 " + "nil-pointer" + " = " + p122())
	out("p123 " + "nil-pointer" + " = " + p123())
	out("p124 " + "nil-pointer" + " = " + p124())
	out("p125 " + "nil-pointer" + " = " + p125())
	out("p126 " + "nil-pointer" + " = " + p126())
	out("p127 " + "nil-pointer" + " = " + p127())
	out("p128 " + "nil-pointer" + " = " + p128())
	out("p129 " + "nil-pointer" + " = " + p129())
	out("p130 " + "nil-pointer" + " = " + p130())
	out("p131 " + "nil-pointer" + " = " + p131())
	out("p132 " + "nil-pointer" + " = " + p132())
	out("p133 " + "nil-pointer" + " = " + p133())
	out("p134 " + "nil-pointer" + " = " + p134())
	out("p135 " + "nil-pointer" + " = " + p135())
	out("p136 " + "nil-pointer" + " = " + p136())
	out("p137 " + "nil-pointer" + " = " + p137())
	out("p138 " + "nil-pointer" + " = " + p138())
	out("p139 " + "nil-pointer" + " = " + p139())
	out("p140 " + "nil-func" + " = " + p140())
	out("p141 " + "nil-func" + " = " + p141())
	out("p142 " + "nil-func" + " = " + p142())
	out("p143 " + "nil-func" + " = " + p143())
	out("p144 " + "nil-func" + " = " + p144())
	out("p145 " + "nil-func" + " = " + p145())
	out("p146 " + "nil-func" + " = " + p146())
	out("p147 " + "nil-func" + " = " + p147())
	out("p148 " + "nil-func" + " = " + p148())
	out("p149 " + "nil-func" + " = " + p149())
	out("p150 " + "nil-func" + " = " + p150())
	out("p151 " + "nil-func" + " = " + p151())
	out("p152 " + "nil-func" + " = " + p152())
	out("p153 " + "nil-func" + " = " + p153())
	out("p154 " + "nil-func" + " = " + p154())
	out("p155 " + "div" + " = " + p155())
	out("p156 " + "div" + " = " + p156())
	out("p157 " + "div" + " = " + p157())
	out("p158 " + "div" + " = " + p158())
	out("p159 " + "div" + " = " + p159())
	out("p160 " + "div" + " = " + p160())
	out("p161 " + "div" + " = " + p161())
	out("p162 " + "div" + " = " + p162())
	out("p163 " + "div" + " = " + p163())
	out("p164 " + "div" + " = " + p164())
	out("p165 " + "div" + " = " + p165())
	out("p166 " + "div" + " = " + p166())
	out("p167 " + "div" + " = " + p167())
	out("p168 " + "div" + " = " + p168())
	out("p169 " + "div" + " = " + p169())
	out("p170 " + "div" + " = " + p170())
	out("p171 " + "div" + " = " + p171())
	out("p172 " + "div" + " = " + p172())
	out("p173 " + "div" + " = " + p173())
	out("p174 " + "div" + " = " + p174())
	out("p175 " + "div" + " = " + p175())
	out("p176 " + "div" + " = " + p176())
	out("p177 " + "div" + " = " + p177())
	out("p178 " + "div" + " = " + p178())
	out("p179 " + "div" + " = " + p179())
	out("p180 " + "div" + " = " + p180())
	out("p181 " + "div" + " = " + p181())
	out("p182 " + "div" + " = " + p182())
	out("p183 " + "div" + " = " + p183())
	out("p184 " + "div" + " = " + p184())
	out("p185 " + "div" + " = " + p185())
	out("p186 " + "div" + " = " + p186())
	out("p187 " + "div" + " = " + p187())
	out("p188 " + "div" + " = " + p188())
	out("p189 " + "div" + " = " + p189())
	out("p190 " + "div" + " = " + p190())
	out("p191 " + "div" + " = " + p191())
	out("p192 " + "div" + " = " + p192())
	out("p193 " + "div" + " = " + p193())
	out("p194 " + "div" + " = " + p194())
	out("p195 " + "assert" + " = " + p195())
	out("p196 " + "assert" + " = " + p196())
	out("p197 " + "assert" + " = " + p197())
	out("p198 " + "assert" + " = " + p198())
	out("p199 " + "assert" + " = " + p199())
	out("p200 " + "assert" + " = " + p200())
	out("p201 " + "assert" + " = " + p201())
	out("p202 " + "assert" + " = " + p202())
	out("p203 " + "assert" + " = " + p203())
	out("p204 " + "assert" + " = " + p204())
	out("p205 " + "assert" + " = " + p205())
	out("p206 " + "assert" + " = " + p206())
	out("p207 " + "assert" + " = " + p207())
	out("p208 " + "assert" + " = " + p208())
	out("p209 " + "assert" + " = " + p209())
	out("p210 " + "assert" + " = " + p210())
	out("p211 " + "assert" + " = " + p211())
	out("p212 " + "assert" + " = " + p212())
	out("p213 " + "assert" + " = " + p213())
	out("p214 " + "assert" + " = " + p214())
	out("p215 " + "assert" + " = " + p215())
	out("p216 " + "assert" + " = " + p216())
	out("p217 " + "assert" + " = " + p217())
	out("p218 " + "assert" + " = " + p218())
	out("p219 " + "assert" + " = " + p219())
	out("p220 " + "assert" + " = " + p220())
	out("p221 " + "assert" + " = " + p221())
	out("p222 " + "assert" + " = " + p222())
	out("p223 " + "assert" + " = " + p223())
	out("p224 " + "assert" + " = " + p224())
	out("p225 " + "assert" + " = " + p225())
	out("p226 " + "assert" + " = " + p226())
	out("p227 " + "assert" + " = " + p227())
	out("p228 " + "assert" + " = " + p228())
	out("p229 " + "assert" + " = " + p229())
	out("p230 " + "assert" + " = " + p230())
	out("p231 " + "assert" + " = " + p231())
	out("p232 " + "assert" + " = " + p232())
	out("p233 " + "assert" + " = " + p233())
	out("p234 " + "assert" + " = " + p234())
	out("p235 " + "uncomparable" + " = " + p235())
	out("p236 " + "uncomparable" + " = " + p236())
	out("p237 " + "uncomparable" + " = " + p237())
	out("p238 " + "uncomparable" + " = " + p238())
	out("p239 " + "uncomparable" + " = " + p239())
	out("p240 " + "uncomparable" + " = " + p240())
	out("p241 " + "uncomparable" + " = " + p241())
	out("p242 " + "uncomparable" + " = " + p242())
	out("p243 " + "uncomparable" + " = " + p243())
	out("p244 " + "uncomparable" + " = " + p244())
	out("p245 " + "uncomparable" + " = " + p245())
	out("p246 " + "uncomparable" + " = " + p246())
	out("p247 " + "uncomparable" + " = " + p247())
	out("p248 " + "uncomparable" + " = " + p248())
	out("p249 " + "uncomparable" + " = " + p249())
	out("p250 " + "uncomparable" + " = " + p250())
	out("p251 " + "uncomparable" + " = " + p251())
	out("p252 " + "uncomparable" + " = " + p252())
	out("p253 " + "uncomparable" + " = " + p253())
	out("p254 " + "uncomparable" + " = " + p254())
	out("p255 " + "uncomparable" + " = " + p255())
	out("p256 " + "uncomparable" + " = " + p256())
	out("p257 " + "uncomparable" + " = " + p257())
	out("p258 " + "uncomparable" + " = " + p258())
	out("p259 " + "uncomparable" + " = " + p259())
	out("p260 " + "uncomparable" + " = " + p260())
	out("p261 " + "uncomparable" + " = " + p261())
	out("p262 " + "uncomparable" + " = " + p262())
	out("p263 " + "uncomparable" + " = " + p263())
	out("p264 " + "uncomparable" + " = " + p264())
	out("p265 " + "uncomparable" + " = " + p265())
	out("p266 " + "uncomparable" + " = " + p266())
	out("p267 " + "uncomparable" + " = " + p267())
	out("p268 " + "uncomparable" + " = " + p268())
	out("p269 " + "uncomparable" + " = " + p269())
	out("p270 " + "uncomparable" + " = " + p270())
	out("p271 " + "uncomparable" + " = " + p271())
	out("p272 " + "uncomparable" + " = " + p272())
	out("p273 " + "uncomparable" + " = " + p273())
	out("p274 " + "uncomparable" + " = " + p274())
	out("p275 " + "make" + " = " + p275())
	out("p276 " + "make" + " = " + p276())
	out("p277 " + "make" + " = " + p277())
	out("p278 " + "make" + " = " + p278())
	out("p279 " + "make" + " = " + p279())
	out("p280 " + "make" + " = " + p280())
	out("p281 " + "make" + " = " + p281())
	out("p282 " + "make" + " = " + p282())
	out("p283 " + "make" + " = " + p283())
	out("p284 " + "make" + " = " + p284())
	out("p285 " + "make" + " = " + p285())
	out("p286 " + "make" + " = " + p286())
	out("p287 " + "make" + " = " + p287())
	out("p288 " + "make" + " = " + p288())
	out("p289 " + "make" + " = " + p289())
	out("p290 " + "make" + " = " + p290())
	out("p291 " + "make" + " = " + p291())
	out("p292 " + "make" + " = " + p292())
	out("p293 " + "make" + " = " + p293())
	out("p294 " + "make" + " = " + p294())
	out("p295 " + "make" + " = " + p295())
	out("p296 " + "make" + " = " + p296())
	out("p297 " + "make" + " = " + p297())
	out("p298 " + "make" + " = " + p298())
	out("p299 " + "make" + " = " + p299())
	out("p300 " + "make" + " = " + p300())
	out("p301 " + "make" + " = " + p301())
	out("p302 " + "make" + " = " + p302())
	out("p303 " + "make" + " = " + p303())
	out("p304 " + "make" + " = " + p304())
	out("p305 " + "make" + " = " + p305())
	out("p306 " + "make" + " = " + p306())
	out("p307 " + "make" + " = " + p307())
	out("p308 " + "make" + " = " + p308())
	out("p309 " + "make" + " = " + p309())
	out("p310 " + "make" + " = " + p310())
	out("p311 " + "make" + " = " + p311())
	out("p312 " + "make" + " = " + p312())
	out("p313 " + "make" + " = " + p313())
	out("p314 " + "make" + " = " + p314())
	out("p315 " + "slice-to-array" + " = " + p315())
	out("p316 " + "slice-to-array" + " = " + p316())
	out("p317 " + "slice-to-array" + " = " + p317())
	out("p318 " + "slice-to-array" + " = " + p318())
	out("p319 " + "slice-to-array" + " = " + p319())
	out("p320 " + "slice-to-array" + " = " + p320())
	out("p321 " + "slice-to-array" + " = " + p321())
	out("p322 " + "slice-to-array" + " = " + p322())
	out("p323 " + "slice-to-array" + " = " + p323())
	out("p324 " + "slice-to-array" + " = " + p324())
	out("p325 " + "slice-to-array" + " = " + p325())
	out("p326 " + "slice-to-array" + " = " + p326())
	out("p327 " + "slice-to-array" + " = " + p327())
	out("p328 " + "slice-to-array" + " = " + p328())
	out("p329 " + "slice-to-array" + " = " + p329())
	out("p330 " + "slice-to-array" + " = " + p330())
	out("p331 " + "slice-to-array" + " = " + p331())
	out("p332 " + "slice-to-array" + " = " + p332())
	out("p333 " + "slice-to-array" + " = " + p333())
	out("p334 " + "slice-to-array" + " = " + p334())
	out("p335 " + "chan" + " = " + p335())
	out("p336 " + "chan" + " = " + p336())
	out("p337 " + "chan" + " = " + p337())
	out("p338 " + "chan" + " = " + p338())
	out("p339 " + "chan" + " = " + p339())
	out("p340 " + "chan" + " = " + p340())
	out("p341 " + "chan" + " = " + p341())
	out("p342 " + "chan" + " = " + p342())
	out("p343 " + "chan" + " = " + p343())
	out("p344 " + "chan" + " = " + p344())
	out("p345 " + "chan" + " = " + p345())
	out("p346 " + "chan" + " = " + p346())
	out("p347 " + "chan" + " = " + p347())
	out("p348 " + "chan" + " = " + p348())
	out("p349 " + "chan" + " = " + p349())
	out("p350 " + "chan" + " = " + p350())
	out("p351 " + "chan" + " = " + p351())
	out("p352 " + "chan" + " = " + p352())
	out("p353 " + "chan" + " = " + p353())
	out("p354 " + "chan" + " = " + p354())
	out("p355 " + "chan" + " = " + p355())
	out("p356 " + "chan" + " = " + p356())
	out("p357 " + "chan" + " = " + p357())
	out("p358 " + "chan" + " = " + p358())
	out("p359 " + "chan" + " = " + p359())
	out("p360 " + "chan" + " = " + p360())
	out("p361 " + "chan" + " = " + p361())
	out("p362 " + "chan" + " = " + p362())
	out("p363 " + "chan" + " = " + p363())
	out("p364 " + "chan" + " = " + p364())
	out("p365 " + "chan" + " = " + p365())
	out("p366 " + "chan" + " = " + p366())
	out("p367 " + "chan" + " = " + p367())
	out("p368 " + "chan" + " = " + p368())
	out("p369 " + "chan" + " = " + p369())
	out("p370 " + "chan" + " = " + p370())
	out("p371 " + "chan" + " = " + p371())
	out("p372 " + "chan" + " = " + p372())
	out("p373 " + "chan" + " = " + p373())
	out("p374 " + "chan" + " = " + p374())
	out("p375 " + "panic" + " = " + p375())
	out("p376 " + "panic" + " = " + p376())
	out("p377 " + "panic" + " = " + p377())
	out("p378 " + "panic" + " = " + p378())
	out("p379 " + "panic" + " = " + p379())
	out("p380 " + "panic" + " = " + p380())
	out("p381 " + "panic" + " = " + p381())
	out("p382 " + "panic" + " = " + p382())
	out("p383 " + "panic" + " = " + p383())
	out("p384 " + "panic" + " = " + p384())
	out("p385 " + "panic" + " = " + p385())
	out("p386 " + "panic" + " = " + p386())
	out("p387 " + "panic" + " = " + p387())
	out("p388 " + "panic" + " = " + p388())
	out("p389 " + "panic" + " = " + p389())
	out("p390 " + "panic" + " = " + p390())
	out("p391 " + "panic" + " = " + p391())
	out("p392 " + "panic" + " = " + p392())
	out("p393 " + "panic" + " = " + p393())
	out("p394 " + "panic" + " = " + p394())
	out("p395 " + "panic" + " = " + p395())
	out("p396 " + "panic" + " = " + p396())
	out("p397 " + "panic" + " = " + p397())
	out("p398 " + "panic" + " = " + p398())
	out("p399 " + "panic" + " = " + p399())
	out("p400 " + "panic" + " = " + p400())
	out("p401 " + "panic" + " = " + p401())
	out("p402 " + "panic" + " = " + p402())
	out("p403 " + "panic" + " = " + p403())
	out("p404 " + "panic" + " = " + p404())
	out("p405 " + "panic" + " = " + p405())
	out("p406 " + "panic" + " = " + p406())
	out("p407 " + "panic" + " = " + p407())
	out("p408 " + "panic" + " = " + p408())
	out("p409 " + "panic" + " = " + p409())
	out("p410 " + "panic" + " = " + p410())
	out("p411 " + "panic" + " = " + p411())
	out("p412 " + "panic" + " = " + p412())
	out("p413 " + "panic" + " = " + p413())
	out("p414 " + "panic" + " = " + p414())
	out("p415 " + "order" + " = " + p415())
	out("p416 " + "order" + " = " + p416())
	out("p417 " + "order" + " = " + p417())
	out("p418 " + "order" + " = " + p418())
	out("p419 " + "order" + " = " + p419())
	out("p420 " + "order" + " = " + p420())
	out("p421 " + "order" + " = " + p421())
	out("p422 " + "order" + " = " + p422())
	out("p423 " + "order" + " = " + p423())
	out("p424 " + "order" + " = " + p424())
	out("p425 " + "order" + " = " + p425())
	out("p426 " + "order" + " = " + p426())
	out("p427 " + "order" + " = " + p427())
	out("p428 " + "order" + " = " + p428())
	out("p429 " + "order" + " = " + p429())
	out("p430 " + "order" + " = " + p430())
	out("p431 " + "order" + " = " + p431())
	out("p432 " + "order" + " = " + p432())
	out("p433 " + "order" + " = " + p433())
	out("p434 " + "order" + " = " + p434())
	out("p435 " + "nopanic" + " = " + p435())
	out("p436 " + "nopanic" + " = " + p436())
	out("p437 " + "nopanic" + " = " + p437())
	out("p438 " + "nopanic" + " = " + p438())
	out("p439 " + "nopanic" + " = " + p439())
	out("p440 " + "nopanic" + " = " + p440())
	out("p441 " + "nopanic" + " = " + p441())
	out("p442 " + "nopanic" + " = " + p442())
	out("p443 " + "nopanic" + " = " + p443())
	out("p444 " + "nopanic" + " = " + p444())
	out("p445 " + "nopanic" + " = " + p445())
	out("p446 " + "nopanic" + " = " + p446())
	out("p447 " + "nopanic" + " = " + p447())
	out("p448 " + "nopanic" + " = " + p448())
	out("p449 " + "nopanic" + " = " + p449())
	out("p450 " + "nopanic" + " = " + p450())
	out("p451 " + "nopanic" + " = " + p451())
	out("p452 " + "nopanic" + " = " + p452())
	out("p453 " + "nopanic" + " = " + p453())
	out("p454 " + "nopanic" + " = " + p454())
	out("p455 " + "copyappend" + " = " + p455())
	out("p456 " + "copyappend" + " = " + p456())
	out("p457 " + "copyappend" + " = " + p457())
	out("p458 " + "copyappend" + " = " + p458())
	out("p459 " + "copyappend" + " = " + p459())
	out("p460 " + "copyappend" + " = " + p460())
	out("p461 " + "copyappend" + " = " + p461())
	out("p462 " + "copyappend" + " = " + p462())
	out("p463 " + "copyappend" + " = " + p463())
	out("p464 " + "copyappend" + " = " + p464())
	out("p465 " + "copyappend" + " = " + p465())
	out("p466 " + "copyappend" + " = " + p466())
	out("p467 " + "copyappend" + " = " + p467())
	out("p468 " + "copyappend" + " = " + p468())
	out("p469 " + "copyappend" + " = " + p469())
	out("p470 " + "copyappend" + " = " + p470())
	out("p471 " + "copyappend" + " = " + p471())
	out("p472 " + "copyappend" + " = " + p472())
	out("p473 " + "copyappend" + " = " + p473())
	out("p474 " + "copyappend" + " = " + p474())
	out("p475 " + "nested-nil" + " = " + p475())
	out("p476 " + "nested-nil" + " = " + p476())
	out("p477 " + "nested-nil" + " = " + p477())
	out("p478 " + "nested-nil" + " = " + p478())
	out("p479 " + "nested-nil" + " = " + p479())
	out("p480 " + "nested-nil" + " = " + p480())
	out("p481 " + "nested-nil" + " = " + p481())
	out("p482 " + "nested-nil" + " = " + p482())
	out("p483 " + "nested-nil" + " = " + p483())
	out("p484 " + "nested-nil" + " = " + p484())
	out("p485 " + "nested-nil" + " = " + p485())
	out("p486 " + "nested-nil" + " = " + p486())
	out("p487 " + "nested-nil" + " = " + p487())
	out("p488 " + "nested-nil" + " = " + p488())
	out("p489 " + "nested-nil" + " = " + p489())
	out("p490 " + "nested-nil" + " = " + p490())
	out("p491 " + "nested-nil" + " = " + p491())
	out("p492 " + "nested-nil" + " = " + p492())
	out("p493 " + "nested-nil" + " = " + p493())
	out("p494 " + "nested-nil" + " = " + p494())
	out("p495 " + "nil-call" + " = " + p495())
	out("p496 " + "nil-call" + " = " + p496())
	out("p497 " + "nil-call" + " = " + p497())
	out("p498 " + "nil-call" + " = " + p498())
	out("p499 " + "nil-call" + " = " + p499())
	out("p500 " + "nil-call" + " = " + p500())
	out("p501 " + "nil-call" + " = " + p501())
	out("p502 " + "nil-call" + " = " + p502())
	out("p503 " + "nil-call" + " = " + p503())
	out("p504 " + "nil-call" + " = " + p504())
	out("p505 " + "nil-call" + " = " + p505())
	out("p506 " + "nil-call" + " = " + p506())
	out("p507 " + "nil-call" + " = " + p507())
	out("p508 " + "nil-call" + " = " + p508())
	out("p509 " + "nil-call" + " = " + p509())
	out("p510 " + "nil-call" + " = " + p510())
	out("p511 " + "nil-call" + " = " + p511())
	out("p512 " + "nil-call" + " = " + p512())
	out("p513 " + "nil-call" + " = " + p513())
	out("p514 " + "nil-call" + " = " + p514())
	out("p515 " + "string" + " = " + p515())
	out("p516 " + "string" + " = " + p516())
	out("p517 " + "string" + " = " + p517())
	out("p518 " + "string" + " = " + p518())
	out("p519 " + "string" + " = " + p519())
	out("p520 " + "string" + " = " + p520())
	out("p521 " + "string" + " = " + p521())
	out("p522 " + "string" + " = " + p522())
	out("p523 " + "string" + " = " + p523())
	out("p524 " + "string" + " = " + p524())
	out("p525 " + "string" + " = " + p525())
	out("p526 " + "string" + " = " + p526())
	out("p527 " + "string" + " = " + p527())
	out("p528 " + "string" + " = " + p528())
	out("p529 " + "string" + " = " + p529())
	out("p530 " + "string" + " = " + p530())
	out("p531 " + "string" + " = " + p531())
	out("p532 " + "string" + " = " + p532())
	out("p533 " + "string" + " = " + p533())
	out("p534 " + "string" + " = " + p534())
	out("p535 " + "shift" + " = " + p535())
	out("p536 " + "shift" + " = " + p536())
	out("p537 " + "shift" + " = " + p537())
	out("p538 " + "shift" + " = " + p538())
	out("p539 " + "shift" + " = " + p539())
	out("p540 " + "shift" + " = " + p540())
	out("p541 " + "shift" + " = " + p541())
	out("p542 " + "shift" + " = " + p542())
	out("p543 " + "shift" + " = " + p543())
	out("p544 " + "shift" + " = " + p544())
	out("p545 " + "shift" + " = " + p545())
	out("p546 " + "shift" + " = " + p546())
	out("p547 " + "shift" + " = " + p547())
	out("p548 " + "shift" + " = " + p548())
	out("p549 " + "shift" + " = " + p549())
	out("p550 " + "shift" + " = " + p550())
	out("p551 " + "shift" + " = " + p551())
	out("p552 " + "shift" + " = " + p552())
	out("p553 " + "shift" + " = " + p553())
	out("p554 " + "shift" + " = " + p554())
}
