package base

// Describe names the dynamic type of a value; every instantiation shows up differently.
func Describe(v interface{}) string {
	switch x := v.(type) {
	case nil:
		return "nil"
	case int:
		return "int"
	case int8:
		return "int8"
	case int16:
		return "int16"
	case int64:
		return "int64"
	case uint8:
		return "uint8"
	case float32:
		return "float32"
	case float64:
		return "float64"
	case string:
		return "string"
	case bool:
		return "bool"
	case []int:
		return "[]int"
	case []string:
		return "[]string"
	case [][]int:
		return "[][]int"
	case map[string]int:
		return "map[string]int"
	case map[string][]int:
		return "map[string][]int"
	case *int:
		return "*int"
	case [2]string:
		return "[2]string"
	case struct{ A int }:
		return "struct{A int}"
	case Named:
		return "base.Named"
	case []Named:
		return "[]base.Named"
	case Box[int]:
		return "Box[int]"
	case Box[string]:
		return "Box[string]"
	case Box[Named]:
		return "Box[Named]"
	case Box[[]int]:
		return "Box[[]int]"
	case Box[Box[int]]:
		return "Box[Box[int]]"
	case *Box[int]:
		return "*Box[int]"
	case Pair[string, int]:
		return "Pair[string,int]"
	case Pair[int, string]:
		return "Pair[int,string]"
	case Pair[string, Box[int]]:
		return "Pair[string,Box[int]]"
	case []Box[int]:
		return "[]Box[int]"
	case interface{ TypeTag() string }:
		return "tagged:" + x.TypeTag()
	}
	return "other"
}

type Named int

func (n Named) Str() string { return "Named!" }

type Box[T any] struct{ V T }

func (b Box[T]) Get() T          { return b.V }
func (b *Box[T]) Set(v T)        { b.V = v }
func (b Box[T]) Kind() string    { return "Box of " + Describe(b.V) }
func MakeBox[T any](v T) Box[T]  { return Box[T]{v} }

type Pair[K comparable, V any] struct {
	K K
	V V
}

func (p Pair[K, V]) Swap() Rev[V, K] { return Rev[V, K]{p.V, K2[K]{p.K}} }

type Rev[A, B any] struct {
	K A
	V K2[B]
}

type K2[K any] struct{ Inner K }

type List[T any] struct {
	Head T
	Next *List[T]
}

func (l *List[T]) Len() int {
	n := 0
	for ; l != nil; l = l.Next {
		n++
	}
	return n
}

func Zero[T any]() T {
	var z T
	return z
}

func Name[T any]() string { return Describe(Zero[T]()) }

// Deep reaches instantiations only through other generic code.
func Deep[T any](x T) string {
	return Name[[]T]() + "|" + Mid[map[string]T](nil)
}

func Mid[T any](x T) string {
	return Describe(x) + "/" + Name[Box[T]]()
}

type Num interface {
	~int8 | ~int16 | ~int | ~float32 | ~float64 | ~uint8
}

func Add[T Num](a, b T) T { return a + b }

func Scale[T Num](xs []T, k T) T {
	var s T
	for _, x := range xs {
		s += x * k
	}
	return s
}

type Strer interface{ Str() string }

func CallStr[T Strer](x T) string { return x.Str() }

// Local declares a type inside a generic function: one distinct type per instance.
func Local[T any](x T) interface{} {
	type loc struct{ v T }
	return loc{x}
}

func LocalTagged[T any](x T) interface{ TypeTag() string } {
	return tagged[T]{x}
}

type tagged[T any] struct{ v T }

func (t tagged[T]) TypeTag() string { return Describe(t.v) }

func Map[T, U any](xs []T, f func(T) U) []U {
	var out []U
	for _, x := range xs {
		out = append(out, f(x))
	}
	return out
}

func Keys[K comparable, V any](m map[K]V, order []K) []K {
	var ks []K
	for _, k := range order {
		if _, ok := m[k]; ok {
			ks = append(ks, k)
		}
	}
	return ks
}
