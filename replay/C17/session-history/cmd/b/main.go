package main

import "ROOT/base"

type onlyHere struct{ q [3]bool }

func main() {
	println(base.Name[[3]bool]() + base.Name[onlyHere]() + base.MakeBox(uint16(7)).Kind() + base.Deep(int64(1)) + base.Describe(base.Local(onlyHere{})))
	l := &base.List[onlyHere]{}
	println(l.Len(), base.Add(int8(100), int8(100)), len(base.Map([]onlyHere{{}}, func(o onlyHere) base.Pair[string, onlyHere] { return base.Pair[string, onlyHere]{"k", o} })))
}
