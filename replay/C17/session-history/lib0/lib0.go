package lib0

import "ROOT/base"

type Own struct{ N int }

func (o Own) Str() string { return "lib0.Own" }
func (o Own) TypeTag() string { return "lib0.Own" }

func Wrap[T any](x T) string { return base.Deep(x) + "~" + base.Name[base.Pair[string, T]]() }

func OwnBox() base.Box[Own] { return base.MakeBox(Own{0}) }

func BoxInt() interface{} { return base.MakeBox(41) }

func LocalInt() interface{} { return base.Local(5) }

func Use0() string { return base.Name[int8]() + " " + base.Deep(int8(100)) }

func Use1() string { return base.Name[float64]() + " " + base.Deep(2.5) }

