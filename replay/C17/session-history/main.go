package main

import (
	"ROOT/base"
	"ROOT/lib0"
)

type mine struct{}

func (mine) Str() string { return "mine" }

type ptrmine struct{ n int }

func (p *ptrmine) Str() string { p.n++; return "ptrmine" }

func describeSwitch(v interface{}) string {
	switch v.(type) {
	case base.Box[int]:
		return "[Box[int]]"
	case base.Box[string]:
		return "[Box[string]]"
	case base.Pair[string, int]:
		return "[Pair[string,int]]"
	case base.Pair[string, string]:
		return "[Pair[string,string]]"
	case base.Box[base.Named]:
		return "[Box[Named]]"
	}
	return "[" + base.Describe(v) + "?]"
}

func mapKeys(vs ...interface{}) string {
	m := map[interface{}]int{}
	for i, v := range vs {
		m[v] += i + 1
	}
	r := itoa(len(m))
	for _, v := range vs {
		r += "," + itoa(m[v])
	}
	return r
}

func main() {
	out("m1 " + lib0.Use0())
	out("m2 " + lib0.Use1())
	out("m3 " + base.Describe(lib0.OwnBox()) + lib0.OwnBox().Kind() + base.CallStr(lib0.Own{}))
	out("m4 " + lib0.Wrap(lib0.Own{1}) + base.LocalTagged(lib0.Own{}).TypeTag())
	out("m5 " + base.MakeBox(struct{ A int }{3}).Kind())
	out("m6 " + base.MakeBox(float32(0.1)).Kind())
	out("m7 " + describeSwitch(base.MakeBox(struct{ A int }{3})) + describeSwitch(base.Pair[string, struct{ A int }]{}) + describeSwitch(lib0.BoxInt()))
	out("m8 " + describeSwitch(base.MakeBox(base.Box[int]{5})) + describeSwitch(base.Pair[string, base.Box[int]]{}) + describeSwitch(lib0.BoxInt()))
	out("m9 " + base.MakeBox(float32(0.1)).Kind())
	out("m10 " + mapKeys(base.MakeBox(1), base.MakeBox(41), lib0.BoxInt(), base.Local(1), base.Local(int8(1)), base.Local(1)))
}
