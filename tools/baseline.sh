#!/bin/bash
# Runs the repository's pinned test suite (guard OFF: no -tags verif) and compares
# the passing tests with /root/.vp/BASELINE.json's stable_pass list.
# usage: tools/baseline.sh [repo-dir]
REPO=${1:-/repo}
OUT=$(mktemp /tmp/baseline-XXXXXX.json)
export GOFLAGS=-mod=mod GOPROXY=off GOSUMDB=off GOTOOLCHAIN=local
(cd "$REPO" && go test -mod=mod -json -vet=off -count=1 -timeout 25m ./... > "$OUT" 2>/dev/null)
python3 - "$OUT" <<'PY'
import json,sys
base=set(json.load(open('/root/.vp/BASELINE.json'))['stable_pass'])
passed=set(); failed=set()
for l in open(sys.argv[1]):
    try: e=json.loads(l)
    except Exception: continue
    if e.get('Test') and e.get('Action') in('pass','fail'):
        k=e['Package']+'::'+e['Test']
        (passed if e['Action']=='pass' else failed).add(k)
missing=sorted(base-passed)
print("baseline: %d stable tests, %d passed now, %d missing, %d failed overall"%(len(base),len(base&passed),len(missing),len(failed)))
for m in missing[:40]: print("  MISSING",m)
sys.exit(1 if missing else 0)
PY
rc=$?
rm -f "$OUT"
exit $rc
