#!/bin/bash
# tools/gjs.sh <dir-with-main-package> [args...]: build with the repo's gopherjs CLI (GOPATH mode off) and run under node
set -e
DIR=$(readlink -f "$1"); shift
export GOPHERJS_SKIP_VERSION_CHECK=true GOFLAGS=-mod=mod GOPROXY=off GOSUMDB=off GOTOOLCHAIN=local
BIN=/tmp/gopherjs-cli
(cd ${VERIF_REPO:-/repo} && go build -o $BIN . )
cd "$DIR"
[ -f go.mod ] || printf 'module probe\n\ngo 1.20\n' > go.mod
$BIN build -o /tmp/gjs-out.js . 
node /tmp/gjs-out.js "$@"
