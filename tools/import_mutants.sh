#!/bin/bash
# tools/import_mutants.sh <Cxx> [worktree-prefix] : copies the sub-agent's mutants from /tmp/wt-<Cxx>/mutants/<n> into
# /verif/seeded/<Cxx>-<k> (next free k), then removes the agent's worktree.
ID=$1
PFX=${2:-wt}
for n in 1 2 3; do
  src=/tmp/$PFX-$ID/mutants/$n
  [ -f $src/patch.diff ] || continue
  k=1; while [ -d /verif/seeded/$ID-$k ]; do k=$((k+1)); done
  dst=/verif/seeded/$ID-$k
  mkdir -p $dst
  cp $src/patch.diff $dst/patch.diff
  [ -d $src/demo ] && cp -r $src/demo $dst/demo
  for d in demo2 demo3; do [ -d $src/$d ] && cp -r $src/$d $dst/$d; done
  [ -f $src/README.md ] && cp $src/README.md $dst/README.agent.md
  find $dst -name '*.js' -o -name '*.js.map' -o -type f -size +200k | xargs -r rm -f
  echo "imported $src -> $dst"
done
git -C /repo worktree remove --force /tmp/$PFX-$ID 2>/dev/null
rm -rf /tmp/$PFX-$ID /tmp/$PFX-$ID-scratch
