#!/usr/bin/env python3
# Generates /verif/MANIFEST.json from the table below (single source of truth for the check list).
import json
CHECKS = {
 # id: (level, text, note, technique, design_ref)
 "C06": ("exploration",
   "differential testing of generated table programs (operators x types x operand shapes x boundary grid / rapid-drawn operands and nested expressions; 8-bit pairs exhaustive) against the reference Go toolchain",
   "trusts the native Go toolchain as reference and Node as the JavaScript engine; int/uint/uintptr are compared as 32-bit through type aliases",
   "property-based differential testing (rapid-generated operand tables and expressions, exhaustive 8-bit enumeration) with native Go as oracle"),
 "C20": ("fault_enumeration",
   "rapid state machine over Store/Load/Clear against an in-memory model of the cache (configuration pairs differing in one field, timestamps around equality, tested-package rule), every truncation point plus random bit flips/overwrites of stored files, SIGKILL injected with strace at every file-system call of Store, gob round trip of parsed Go files and end-to-end JavaScript equality for cache-restored packages",
   "trusts os.UserCacheDir/XDG_CACHE_HOME redirection, strace signal injection as a stand-in for a crash, and the exported compiler pipeline for the end-to-end comparison; power loss is out of scope",
   "model-based stateful property testing (rapid) + exhaustive truncation/crash-point enumeration with a miss-or-intact oracle"),
 "C19": ("exploration",
   "rapid-generated hint/code streams through the real source-map filter under random chunkings checked against a reference line/column scan and an independent VLQ decoder; whitespace removal must keep hints and tokens; generated throw-site programs (plain and minified) whose Node stack frames are resolved through the emitted map to the throwing statement",
   "hint bytes are produced by the real encoder through verif-tagged hooks; generated columns are compared in bytes; Node's stack trace format is trusted",
   "property-based testing against a reference model (rapid) + differential stack-frame resolution on generated programs"),
 "C18": ("exploration",
   "rapid-generated package directories (build-constraint expressions, legacy +build lines, file-name suffixes, cgo and .inc.js files, -tags sets) whose selected files are compared with an independent evaluator of the documented rules; a subset is compiled and run with self-registering files; the GOROOT packages are checked as a fixed corpus under js/wasm",
   "go/build/constraint is trusted to parse expressions; tag predicate and file-name rule are transcribed from the documentation; known OS/arch lists are those of the installed Go",
   "property-based testing against an independent reference evaluator (rapid)"),
 "C12": ("exploration",
   "rapid-generated (original, overlay) source pairs merged by the real augmentation code and compared declaration by declaration, file by file and in order, with an independent implementation of the documented merge rules; the merged package must type-check; all natives packages present in the GOROOT are pushed through the real parseAndAugment as a fixed corpus",
   "the augmentation entry points are reached through verif-tagged hooks that repeat the call sequence of parseAndAugment; go/parser, go/printer, go/types are trusted",
   "property-based testing against an independently written reference implementation (rapid)"),
 "C14": ("exploration",
   "exhaustive in-program enumeration of all byte strings of length <=4 over a 19-byte UTF-8 boundary alphabet, rapid-drawn longer byte strings, every rune value for string(rune), and generated literals in plain and minified builds; every string operation of the property is digested and compared with the native run",
   "trusts the native Go toolchain as reference; digests are 32-bit FNV (a mismatch is localised to a string and an operation by re-running verbosely)",
   "exhaustive enumeration + property-based differential testing (rapid) with native Go as oracle"),
 "C15": ("exploration",
   "rapid-generated comparable key types (nested to depth 3) with adversarial key pools and rapid-generated operation histories (insert, overwrite, op-assign, delete, lookup, comma-ok, len, clear-by-range, range with deletion, nil maps, unhashable dynamic keys); len and an order-insensitive digest after every step are compared with the native run, range semantics through in-program invariants",
   "trusts the native Go toolchain as reference; digests use a generated per-type renderer, so two keys that render equally but differ would only be noticed through len",
   "property-based differential testing of generated operation histories (rapid) with native Go as oracle"),
 "C13": ("exploration",
   "table programs over boundary grids and rapid-drawn arguments for the exactly defined math functions, math/bits and sync/atomic; documented special cases of the JavaScript-delegating math functions; unicode case mapping/folding/predicates for every rune; rapid-generated sequential histories over sync/atomic values and over the nosync primitives (native side runs the real sync package, contended operations predicted by a model must panic) - all compared with the native run",
   "trusts the native Go toolchain (upstream implementations) as reference; transcendental functions are compared only on documented special cases; int/uint/uintptr-width-dependent arguments are excluded",
   "property-based differential testing (rapid-generated argument tables and operation histories, exhaustive rune enumeration) with native Go as oracle"),
 "C11": ("exploration",
   "self-checking generated programs under Node (plain and minified): rapid-generated (Go type, value) pairs over the documented conversion table pushed through argument, property, index, return-value and Interface() paths and described structurally on the JavaScript side; expectations are computed by the harness from the js package documentation; fixed scenario families with generated values cover tagged wrapper structs, typed accessors, exposed functions, MakeFunc, MakeWrapper, function identity and the blocking-callback guard",
   "expectations exist only for documented conversions (time.Time and DOM Node rows cannot be built here); Node's typeof/constructor/Object.is are trusted",
   "property-based testing with a documentation-derived oracle and round-trip relation (rapid)"),
 "C07": ("exploration",
   "rapid-generated struct/array type shapes x a catalogue of about 60 copy and alias contexts x a mutation of a rapid-chosen leaf on one side, followed by deep dumps of both sides, compared with the native run",
   "trusts the native Go toolchain as reference; contexts are a fixed catalogue instantiated over generated shapes, so a context outside the catalogue is not explored",
   "property-based differential testing of generated probe programs (rapid) with native Go as oracle"),
 "C08": ("exploration",
   "rapid-instantiated probes of every panicking operation of the property with operand values around the boundaries (recovered value classified as runtime.Error / keyword class, with pre/post and operand-order logging) plus rapid-generated call trees with defers, recover at different depths, re-panics, panicking deferred functions, Goexit, goroutines and wrapper frames, each run as its own process so that the way the program ends is observed; compared with the native run",
   "trusts the native Go toolchain as reference; run-time error messages are compared by class keyword, not verbatim; evaluation-order probes only where the spec fixes the order",
   "property-based differential testing of generated probe programs and call trees (rapid) with native Go as oracle"),
 "C09": ("exploration",
   "rapid-generated families of named types (embedding graphs with value/pointer embedding and shadowing, value/pointer receivers, exported/unexported methods) and interfaces; every (dynamic value, interface) and (dynamic value, concrete type) pair is probed (assertions, calls with receiver logging and dumps afterwards, type-switch position, interface equality, map keys) plus static selectors, method values and method expressions for every method in the go/types method sets, and fixed probes for type identity across functions and packages; compared with the native run",
   "trusts the native Go toolchain as reference; go/types is used only to decide which static selectors are valid Go",
   "property-based differential testing of generated type families (rapid) with native Go as oracle"),
 "C01": ("exploration",
   "rapid-generated single-goroutine Go programs (progen) covering the statement and expression forms of the language subset, bundled several scenarios per build and run one process per scenario in both worlds; trace lines and the way each scenario ends (exit, panic with message, run-time error class, deadlock) are compared with the reference toolchain; every emitted file must pass node --check and no build may fail",
   "trusts the native Go toolchain as reference; generated programs obey the documented differences (int stays inside 32 bits, println only with ASCII strings, no negative shifts) and avoid what the spec leaves open; the known finding C01-evalorder is excluded by construction (side-effecting calls are statements of their own)",
   "property-based differential testing of generated programs (rapid) with native Go as oracle"),
 "C16": ("exploration",
   "differential testing of rapid-generated programs (identifier pressure across the 26- and 702-name boundaries, shadowing, closures, labels, hostile string literals, adjacent signs) and the hand-written corpus: minified versus plain build of the same sources, both checked with node --check and run scenario by scenario under Node",
   "no reference toolchain involved: the plain build is the oracle for the minified one (C01 relates the plain build to Go); Node is trusted",
   "property-based differential (metamorphic) testing: minify on/off (rapid)"),
 "C05": ("exploration",
   "differential testing of rapid-generated programs (dynamic dispatch, generics, unreferenced look-alike declarations) and the hand-written corpus (linknames, cross-package dispatch, side-effecting initialisers): normal link versus a link with every declaration forced alive, both run scenario by scenario under Node",
   "the all-alive link is the oracle (it is obtained by marking every declaration alive before the same program writer runs); Node is trusted",
   "property-based differential (metamorphic) testing: dead-code elimination on/off (rapid)"),
 "C04": ("exploration",
   "rapid-generated programs of 3-5 packages around generic code (transitive and recursive instantiation, types declared inside generic functions, instances crossing packages in both directions, per-instance arithmetic width, dispatch through constraints, identity probes) compared line by line with the native run; single-package generics are also exercised by the progen-based checks",
   "trusts the native Go toolchain as reference; the generator draws type arguments from a fixed pool of 19 types",
   "property-based differential testing of generated generic programs (rapid) with native Go as oracle"),
 "C17": ("exploration",
   "rapid-generated multi-package generic programs, progen bundles and the corpus built repeatedly (fresh in-process sessions, plain/minified/with source map, fresh compiler processes, permuted file lists on the command line, after another program in the same session); sha256 of JavaScript and source map must agree within each (program, options) class",
   "ordering races are sampled (n builds per class, reported); the session-history sub-check has an open known finding",
   "property-based metamorphic testing: repeated builds must be byte-identical (rapid-generated programs and file-order permutations)"),
 "C02": ("exploration",
   "rapid-generated programs whose statement boundaries and sub-expressions are suspension sites controlled by a run-time bit mask; for every program the traces under the empty mask, the full mask and rapid-drawn subsets must be identical to each other, to the trace of the same text built with non-blocking yield functions (direct compilation form) and to the native run",
   "trusts the native Go toolchain as reference; suspension uses a channel closed by a helper goroutine, no other goroutine is runnable in between; sites whose relative evaluation order the spec leaves open are not instrumented",
   "property-based metamorphic testing over suspension subsets plus differential testing against native Go (rapid)"),
 "C10": ("exploration",
   "rapid-generated multi-package programs (import DAGs with drawn names, 1-3 files per package with adversarial names, initialiser dependencies against declaration order and across files through functions, methods, closures, generics and imports, suspending initialisers and init functions, go:linkname references to functions and value/pointer methods in every import direction): the GopherJS trace must be one block per package in a topological order of the import graph, each block equal to the native run of a mirror tree whose file names reproduce the file order observed under GopherJS, the observed order of each file-name pair must be the same wherever it occurs; derived programs with unsupported directives must be rejected by the build",
   "trusts the native Go toolchain as reference for the per-package initialisation trace; the order among independent packages is not compared (the property leaves it open); GopherJS' file order is observed, not assumed; native linkname builds need an empty .s file which GopherJS ignores",
   "property-based differential testing of generated package graphs (rapid) with native Go as oracle plus structural invariants over the trace"),
}
PENDING_REASON = "check not built yet in this session (work in progress; see DESIGN.md §8 for the order)"
props=[json.loads(l)['id'] for l in open('/verif/properties.jsonl')]
hooks_commits=[l.strip() for l in open('/verif/tools/hook_commits.txt')] if __import__('os').path.exists('/verif/tools/hook_commits.txt') else []
env="GOFLAGS=-mod=mod GOPROXY=off GOSUMDB=off GOTOOLCHAIN=local"
m={
 "version":1,
 "setup_cmd": f"cd /verif && {env} go build ./internal/... && {env} go vet -tags verif ./checks/... >/dev/null 2>&1; true",
 "hooks":{"guard":"verif","enable":"go test -c -tags verif (done by /verif/run for every check)",
   "baseline_off_cmd":"cd /repo && go test -mod=mod -json -vet=off -count=1 -timeout 25m ./...",
   "source_commits":hooks_commits,"add_only":True},
 "engines":[
   {"name":"drv","path":"internal/drv","serves_properties":sorted(CHECKS),"kind_free_text":"in-process GopherJS build + Node run + native reference build/run, outcome normalisation, evidence, known-findings registry, replay store; rapid v1.3.0 drives generation and shrinking"}],
 "checks":[], "not_applicable":[],
 "notes":"Single entry point ./run <Cxx> <quick|thorough|replay>; exit 0/1/2 (2 = infrastructure/inconclusive). Known findings: /verif/known-findings.jsonl."}
for pid in props:
  if pid in CHECKS:
    lvl,text,note,tech=CHECKS[pid]
    m["checks"].append({"property_id":pid,"quick_cmd":f"./run {pid} quick","thorough_cmd":f"./run {pid} thorough",
      "evidence_file":f"evidence/{pid}.json","replay_cmd_template":f"./run {pid} replay {{path}}","engine":"drv",
      "level_claimed":{"category":lvl,"text":text,"design_ref":f"DESIGN.md §4 {pid}"},"level_note":note,"technique":tech})
  else:
    m["not_applicable"].append({"property_id":pid,"reason":PENDING_REASON})
json.dump(m,open('/verif/MANIFEST.json','w'),indent=1)
print("checks:",len(m["checks"]),"pending:",len(m["not_applicable"]))
