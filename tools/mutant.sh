#!/bin/bash
# tools/mutant.sh <seeded/ID dir name> [check ids...]
# Applies seeded/<ID>/patch.diff to a scratch worktree of /repo HEAD, verifies it builds and keeps
# the pinned test suite green, runs the given checks (default: the property in the ID) against it
# with VERIF_REPO, prints a one-line verdict per check and removes the worktree.
ID=$1; shift
PROP=${ID%%-*}
CHECKS=${@:-$PROP}
WT=/tmp/mw-$ID
export GOFLAGS=-mod=mod GOPROXY=off GOSUMDB=off GOTOOLCHAIN=local
git -C /repo worktree remove --force $WT 2>/dev/null
git -C /repo worktree add -q --detach $WT HEAD || exit 2
if ! git -C $WT apply /verif/seeded/$ID/patch.diff 2>/tmp/mw-$ID.err; then
  echo "MUTANT $ID: patch does not apply to HEAD: $(head -2 /tmp/mw-$ID.err | tr '\n' ' ')"
  git -C /repo worktree remove --force $WT; exit 3
fi
if ! (cd $WT && go build ./... 2>&1 | tail -3); then echo "MUTANT $ID: does not build"; fi
if [ -z "${SKIP_BASELINE:-}" ]; then
  b=$(/verif/tools/baseline.sh $WT | head -1)
  echo "MUTANT $ID: $b"
fi
for c in $CHECKS; do
  start=$(date +%s)
  out=$(cd /verif && VERIF_REPO=$WT VERIF_REPLAY_OUT=/tmp/mw-replays VERIF_EVIDENCE_SUFFIX=.mut VERIF_SEED=${VERIF_SEED:-0} ./run $c ${TIER:-quick} 2>&1); rc=$?
  mkdir -p /tmp/mutlog; echo "$out" > /tmp/mutlog/$ID.$c.out
  echo "MUTANT $ID check=$c rc=$rc secs=$(( $(date +%s)-start )) :: $(echo "$out" | grep -A1 VIOLATION | grep what | head -2 | cut -c1-300 | tr '\n' ' ') $(echo "$out" | grep -A3 INFRA | head -4 | cut -c1-300 | tr '\n' ' ')"
done
rm -f /verif/evidence/*.mut.json
git -C /repo worktree remove --force $WT
