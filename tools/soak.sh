#!/bin/bash
# tools/soak.sh "<seeds>" [tier] [checks...]: runs checks at several seeds, prints one line per run.
# Evidence files are written with a suffix so that the committed evidence is not touched.
SEEDS=${1:-"1 2 3"}; TIER=${2:-quick}; shift; shift
CHECKS=${@:-$(python3 -c "import json;print(' '.join(c['property_id'] for c in json.load(open('MANIFEST.json'))['checks']))")}
for s in $SEEDS; do for c in $CHECKS; do
  start=$(date +%s)
  out=$(VERIF_SEED=$s VERIF_REPLAY_OUT=/tmp/soak-replays VERIF_EVIDENCE_SUFFIX=.soak ./run $c $TIER 2>&1); rc=$?
  echo "seed=$s check=$c rc=$rc secs=$(( $(date +%s)-start )) $(echo "$out" | grep -c VIOLATION) violations"
  if [ $rc -ne 0 ]; then echo "$out" | grep -v "rapid\] draw" | tail -15; fi
done; done
rm -f evidence/*.soak.json
