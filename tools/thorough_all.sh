#!/bin/bash
# tools/thorough_all.sh [checks...]: runs the thorough tier of every check once, sequentially,
# keeps the evidence under evidence-thorough/ and prints one line per check.
cd "$(dirname "$(readlink -f "$0")")/.." || exit 2
CHECKS=${@:-$(python3 -c "import json;print(' '.join(c['property_id'] for c in json.load(open('MANIFEST.json'))['checks']))")}
mkdir -p evidence-thorough
for c in $CHECKS; do
  start=$(date +%s)
  out=$(VERIF_TIMEOUT=${VERIF_TIMEOUT:-75m} VERIF_REPLAY_OUT=/tmp/thorough-replays VERIF_EVIDENCE_SUFFIX=.thorough ./run $c thorough 2>&1); rc=$?
  echo "check=$c rc=$rc secs=$(( $(date +%s)-start )) $(echo "$out" | grep -c VIOLATION) violations"
  if [ $rc -ne 0 ]; then echo "$out" | grep -v "rapid\] draw" | tail -12 | cut -c1-600; fi
  [ -f evidence/$c.thorough.json ] && mv evidence/$c.thorough.json evidence-thorough/$c.json
done
