#!/opt/veriftools/pyvenv/bin/python3
import json,jsonschema,glob,sys
m=json.load(open('/verif/MANIFEST.json'));jsonschema.validate(m,json.load(open('/root/.vp/MANIFEST.schema.json')))
es=json.load(open('/root/.vp/EVIDENCE.schema.json'))
ids=[c['property_id'] for c in m['checks']]
for f in sorted(glob.glob('/verif/evidence/*.json')):
    e=json.load(open(f))
    try:
        jsonschema.validate(e,es)
        assert len(e['coverage'].get('samples',[]))>=1, "no samples"
        assert e['coverage'].get('evaluations',0)>=1 and e['coverage'].get('distinct_nontrivial',0)>=2, "counts too low"
        print(f,"ok",e['tier'],e['coverage'].get('evaluations'),e['coverage'].get('distinct_nontrivial'),round(e['wall_s']))
    except Exception as ex: print(f,"INVALID",str(ex)[:300])
props=[json.loads(l)['id'] for l in open('/verif/properties.jsonl')]
na=[x['property_id'] for x in m.get('not_applicable',[])]
print("claimed",len(ids),"na",na,"unaccounted",[p for p in props if p not in ids and p not in na])
